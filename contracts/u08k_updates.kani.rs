#[cfg(kani)]
mod verif_kani {
    use super::*;

    /// Every combination of empty / non-empty sections.
    #[kani::proof]
    #[kani::unwind(3)]
    fn vk_u08_updates_flags() {
        let (m, d, r, c): (bool, bool, bool, bool) = (kani::any(), kani::any(), kani::any(), kani::any());
        let mut u = Updates::default();
        if m {
            u.set_mappings(0..1, 1);
        }
        if d {
            u.add_despawn(1..2);
        }
        if r {
            u.add_removals(2..3, 1, 3..4);
        }
        if c {
            u.add_changed_entity(4..5);
        }
        let f = u.flags();
        // a section is announced iff something was recorded for it (an announced-but-empty or a
        // recorded-but-unannounced section would desynchronise the client's parser)
        assert!(f.contains(UpdateMessageFlags::MAPPINGS) == m);
        assert!(f.contains(UpdateMessageFlags::DESPAWNS) == d);
        assert!(f.contains(UpdateMessageFlags::REMOVALS) == r);
        assert!(f.contains(UpdateMessageFlags::CHANGES) == c);
        assert!(f.bits() & !UpdateMessageFlags::all().bits() == 0);
        assert!(u.is_empty() == f.is_empty());
        assert!(u.is_empty() == !(m || d || r || c));
        kani::cover!(m && d && r && c);
        kani::cover!(!(m || d || r || c));
        core::mem::forget(u);
    }
}
