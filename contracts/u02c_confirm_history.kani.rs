#[cfg(kani)]
mod verif_kani_contracts {
    use super::*;

    // `stub_verified` havocs what the contract `modifies`: it needs an Arbitrary instance for the type
    impl kani::Arbitrary for ConfirmHistory {
        fn any() -> Self {
            ConfirmHistory {
                mask: kani::any(),
                last_tick: RepliconTick::new(kani::any()),
            }
        }
    }

    fn any_history() -> ConfirmHistory {
        let h = ConfirmHistory {
            mask: kani::any(),
            last_tick: RepliconTick::new(kani::any()),
        };
        kani::assume(h.mask & 1 == 1);
        h
    }

    #[kani::proof_for_contract(ConfirmHistory::set_last_tick)]
    fn vk_u02c_set_last_tick_contract() {
        let mut h = ConfirmHistory {
            mask: kani::any(),
            last_tick: RepliconTick::new(kani::any()),
        };
        h.set_last_tick(RepliconTick::new(kani::any()));
    }

    #[kani::proof_for_contract(ConfirmHistory::set)]
    fn vk_u02c_set_contract() {
        let mut h = ConfirmHistory {
            mask: kani::any(),
            last_tick: RepliconTick::new(kani::any()),
        };
        h.set(kani::any());
    }

    fn in_set(last: RepliconTick, mask: u64, p: RepliconTick) -> bool {
        let ago = last - p;
        p <= last && ago < 64 && (mask >> ago) & 1 == 1
    }

    #[kani::proof]
    #[kani::stub_verified(ConfirmHistory::set_last_tick)]
    #[kani::stub_verified(ConfirmHistory::set)]
    fn vk_u02c_confirm_modular() {
        let mut h = any_history();
        let (old_last, old_mask) = (h.last_tick, h.mask);
        let t = RepliconTick::new(kani::any());
        // requires (property C12): the confirmed tick is less than half the counter range away from the last one
        kani::assume((t.get().wrapping_sub(old_last.get()) as i32).unsigned_abs() < (1 << 30));
        h.confirm(t);
        assert!(h.mask & 1 == 1);
        assert!(h.last_tick == if t > old_last { t } else { old_last });
        let last = h.last_tick;
        let p = RepliconTick::new(kani::any());
        kani::assume((p.get().wrapping_sub(old_last.get()) as i32).unsigned_abs() < (1 << 30));
        let was = in_set(old_last, old_mask, p);
        let expect = p <= last && (last - p >= 64 || p == t || was);
        assert!(h.contains(p) == expect);
        kani::cover!(t > old_last && t - old_last == 64);
    }
}
