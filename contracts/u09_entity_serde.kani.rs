#[cfg(kani)]
mod verif_kani {
    extern crate std;
    use super::*;
    use alloc::vec::Vec;

    fn no_backtrace() -> std::backtrace::Backtrace {
        std::backtrace::Backtrace::disabled()
    }

    const MAX: usize = 16;

    /// Totality: arbitrary bytes give an error or a valid identifier, never a panic.
    #[kani::proof]
    #[kani::unwind(18)]
    #[kani::stub(std::backtrace::Backtrace::capture, no_backtrace)]
    fn vk_u09_deserialize_total() {
        let data: [u8; MAX] = kani::any();
        let len: usize = kani::any();
        kani::assume(len <= MAX);
        let mut msg = Bytes::copy_from_slice(&data[..len]);
        let r = deserialize_entity(&mut msg);
        let left = msg.len();
        assert!(left <= len);
        match r {
            Ok(e) => {
                assert!(left < len); // something was consumed
                assert!(e.generation() >= 1 && e.generation() < (1 << 31));
                assert!(Entity::try_from_bits(e.to_bits()).is_ok());
                kani::cover!(e.generation() > 1);
                kani::cover!(left > 0);
            }
            Err(e) => {
                kani::cover!(len >= 6);
                core::mem::forget(e);
            }
        }
        core::mem::forget(msg);
    }

    /// Losslessness and exact consumption when embedded in a longer message.
    #[kani::proof]
    #[kani::unwind(18)]
    #[kani::stub(std::backtrace::Backtrace::capture, no_backtrace)]
    fn vk_u09_roundtrip() {
        let index: u32 = kani::any();
        let generation: u32 = kani::any();
        kani::assume(generation >= 1 && generation < (1 << 31)); // every valid identifier
        let e = Entity::from_bits(((generation as u64) << 32) | index as u64);
        assert!(e.index() == index && e.generation() == generation);
        let mut buf: Vec<u8> = Vec::new();
        let s = serialize_entity(&mut buf, e);
        assert!(s.is_ok());
        core::mem::forget(s);
        let n = buf.len();
        assert!(n >= 1 && n <= 15);
        let trailing: u8 = kani::any();
        buf.push(trailing);
        let mut msg = Bytes::from(buf);
        let r = deserialize_entity(&mut msg);
        match r {
            Ok(d) => {
                assert!(d == e);
                assert!(msg.len() == 1 && msg[0] == trailing);
            }
            Err(err) => {
                core::mem::forget(err);
                assert!(false, "a serialized valid identifier must decode");
            }
        }
        kani::cover!(generation == 1 && n == 1);
        kani::cover!(generation == (1 << 31) - 1 && index == u32::MAX && n == 10);
        kani::cover!(generation == 2);
        core::mem::forget(msg);
    }
}
