#[cfg(kani)]
mod verif_kani {
    use super::*;

    /// Any state satisfying the representation invariant (bit 0 = the last tick itself is confirmed).
    fn any_history() -> ConfirmHistory {
        let h = ConfirmHistory {
            mask: kani::any(),
            last_tick: RepliconTick::new(kani::any()),
        };
        kani::assume(inv(&h));
        h
    }

    fn inv(h: &ConfirmHistory) -> bool {
        h.mask & 1 == 1
    }

    /// Abstraction: `p` is in the stored set S iff it lies inside the window and its bit is set.
    fn in_set(last: RepliconTick, mask: u64, p: RepliconTick) -> bool {
        let ago = last - p;
        p <= last && ago < 64 && (mask >> ago) & 1 == 1
    }

    /// Oracle from the property: a plain set of confirmed ticks, anything older than the window counts as confirmed.
    fn model_contains(last: RepliconTick, mask: u64, p: RepliconTick) -> bool {
        p <= last && (last - p >= 64 || in_set(last, mask, p))
    }

    #[kani::proof]
    fn vk_u02_new() {
        let t = RepliconTick::new(kani::any());
        let h = ConfirmHistory::new(t);
        assert!(inv(&h));
        assert!(h.last_tick() == t);
        assert!(h.mask() == 1);
        let p = RepliconTick::new(kani::any());
        assert!(in_set(h.last_tick, h.mask, p) == (p == t));
        kani::cover!(true);
    }

    #[kani::proof]
    fn vk_u02_contains() {
        let h = any_history();
        let p = RepliconTick::new(kani::any());
        let r = h.contains(p);
        assert!(r == model_contains(h.last_tick, h.mask, p));
        assert!(h.last_tick() == h.last_tick && h.mask() == h.mask);
        kani::cover!(r && h.last_tick - p == 63);
        kani::cover!(!r && p < h.last_tick);
        kani::cover!(p.get() > h.last_tick.get() && p < h.last_tick); // across the wrap point
    }

    #[kani::proof]
    fn vk_u02_set_last_tick() {
        let mut h = any_history();
        let (old_last, old_mask) = (h.last_tick, h.mask);
        let t = RepliconTick::new(kani::any());
        kani::assume(t >= old_last); // requires
        let d = t - old_last;
        h.set_last_tick(t);
        assert!(inv(&h));
        assert!(h.last_tick == t);
        // whole-view postcondition through a universally quantified probe
        let p = RepliconTick::new(kani::any());
        let expect = p == t || (in_set(old_last, old_mask, p) && t - p < 64);
        assert!(in_set(h.last_tick, h.mask, p) == expect);
        kani::cover!(d == 64);
        kani::cover!(d == 63 && (old_mask >> 0) & 1 == 1);
        kani::cover!(d > 64);
    }

    #[kani::proof]
    fn vk_u02_set() {
        let mut h = any_history();
        let (old_last, old_mask) = (h.last_tick, h.mask);
        let ago: u32 = kani::any();
        kani::assume(ago < 64); // requires
        h.set(ago);
        assert!(inv(&h));
        assert!(h.last_tick == old_last);
        let p = RepliconTick::new(kani::any());
        assert!(in_set(h.last_tick, h.mask, p) == (in_set(old_last, old_mask, p) || p == old_last - ago));
        kani::cover!(ago == 63);
    }

    #[kani::proof]
    fn vk_u02_confirm() {
        let mut h = any_history();
        let (old_last, old_mask) = (h.last_tick, h.mask);
        let t = RepliconTick::new(kani::any());
        // requires (property C12): the confirmed tick is less than half the counter range away from the last one
        kani::assume((t.get().wrapping_sub(old_last.get()) as i32).unsigned_abs() < (1 << 30));
        h.confirm(t);
        assert!(inv(&h));
        // the confirmed tick never moves backwards
        assert!(h.last_tick == if t > old_last { t } else { old_last });
        assert!(h.last_tick >= old_last);
        let last = h.last_tick;
        let p = RepliconTick::new(kani::any());
        // probes are taken within half the counter range of both the old and the new last tick
        kani::assume((p.get().wrapping_sub(old_last.get()) as i32).unsigned_abs() < (1 << 30));
        // plain-set oracle: confirmed' = confirmed + {t}, queried through the new window
        let was = in_set(old_last, old_mask, p);
        let expect = p <= last && (last - p >= 64 || p == t || was);
        assert!(h.contains(p) == expect);
        kani::cover!(t > old_last && t - old_last == 64);
        kani::cover!(t > old_last && t - old_last > 64 && h.contains(p) && !was);
        kani::cover!(t < old_last && old_last - t == 63);
        kani::cover!(t < old_last && old_last - t >= 64);
    }

    /// Precondition of `contains_any`: start <= end, and the range lies within half the counter range of `last`
    /// (so that every comparison involved is unambiguous).
    fn range_pre(last: RepliconTick, a: RepliconTick, b: RepliconTick) -> bool {
        let da = a.get().wrapping_sub(last.get()) as i32;
        let db = b.get().wrapping_sub(last.get()) as i32;
        da <= db && da > i32::MIN / 2 && db < i32::MAX / 2
    }

    #[kani::proof]
    fn vk_u02_contains_any_complete() {
        let h = any_history();
        let a = RepliconTick::new(kani::any());
        let b = RepliconTick::new(kani::any());
        kani::assume(range_pre(h.last_tick, a, b)); // requires
        let r = h.contains_any(a, b);
        let k: u32 = kani::any();
        kani::assume(k <= b - a);
        let p = a + k; // any tick of the range
        if model_contains(h.last_tick, h.mask, p) {
            assert!(r);
        }
        kani::cover!(h.last_tick - a == 63 && b >= h.last_tick); // the range covers the whole window
        kani::cover!(r && a < b);
        kani::cover!(!r && a < b && b < h.last_tick);
    }

    /// Soundness direction: `contains_any(a, b)` ==> some tick of [a, b] is contained.
    /// Loop-free: the candidate witnesses inside the window are the set bits of `mask & m`, where `m` has exactly
    /// the bits whose tick lies in [a, b] (checked for a universally quantified bit index `i`); a non-zero
    /// 64-bit word has a set bit, so `hit` below implies that a witness exists.
    #[kani::proof]
    fn vk_u02_contains_any_sound() {
        let h = any_history();
        let (last, mask) = (h.last_tick, h.mask);
        let a = RepliconTick::new(kani::any());
        let b = RepliconTick::new(kani::any());
        kani::assume(range_pre(last, a, b)); // requires
        let r = h.contains_any(a, b);
        if a <= last {
            let oldest = last - a; // `ago` of the range start
            let newest = if b < last { last - b } else { 0 }; // `ago` of the range end, clamped to the window
            let hi = if oldest < 63 { oldest } else { 63 };
            let m: u64 = if newest > 63 { 0 } else { (u64::MAX << newest) & (u64::MAX >> (63 - hi)) };
            let i: u32 = kani::any();
            kani::assume(i < 64);
            let p = last - i;
            // bit i of m <=> the tick `last - i` lies in [a, b]
            assert!(((m >> i) & 1 == 1) == (a <= p && p <= b));
            // every set bit of mask & m is a contained tick of the range
            if ((mask & m) >> i) & 1 == 1 {
                assert!(model_contains(last, mask, p));
            }
            let hit = mask & m != 0 || model_contains(last, mask, a);
            assert!(!r || hit);
        } else {
            // the whole range is newer than the last tick: nothing can be contained
            assert!(!r);
        }
        kani::cover!(r);
        kani::cover!(!r && a <= last);
    }
}
