#[cfg(kani)]
mod verif_kani {
    use super::*;

    #[kani::proof]
    fn vk_u08_flags_last() {
        let bits: u8 = kani::any();
        kani::assume(bits != 0); // requires: non-empty
        let f = UpdateMessageFlags::from_bits_retain(bits);
        let l = f.last().bits();
        assert!(l.count_ones() == 1);
        assert!(l & bits == l);
        assert!((bits as u16) < (l as u16) * 2); // no higher bit set
        if bits & !UpdateMessageFlags::all().bits() == 0 {
            let named = UpdateMessageFlags::from_bits(l);
            assert!(named.is_some());
            assert!(
                l == UpdateMessageFlags::MAPPINGS.bits()
                    || l == UpdateMessageFlags::DESPAWNS.bits()
                    || l == UpdateMessageFlags::REMOVALS.bits()
                    || l == UpdateMessageFlags::CHANGES.bits()
            );
        }
        kani::cover!(bits == 0b1111);
        kani::cover!(bits == 0x80);
    }
}
