#[cfg(kani)]
mod verif_kani {
    use super::*;

    fn entity_mutations(i: u32) -> EntityMutations {
        EntityMutations {
            entity: Entity::from_raw(i),
            ranges: ChangeRanges {
                entity: 0..0,
                components_len: 0,
                components: Vec::new(),
            },
        }
    }

    #[kani::proof]
    #[kani::unwind(5)]
    fn vk_u07_is_empty() {
        let mut m = Mutations::default();
        let graphs: usize = kani::any();
        kani::assume(graphs <= 3);
        let mut total = 0usize;
        let mut g = 0;
        while g < graphs {
            let mut v = Vec::new();
            let n: usize = kani::any();
            kani::assume(n <= 2);
            let mut k = 0;
            while k < n {
                v.push(entity_mutations(k as u32));
                k += 1;
            }
            total += n;
            m.related.push(v);
            g += 1;
        }
        let s: usize = kani::any();
        kani::assume(s <= 2);
        let mut k = 0;
        while k < s {
            m.standalone.push(entity_mutations(10 + k as u32));
            k += 1;
        }
        total += s;
        assert!(m.is_empty() == (total == 0));
        kani::cover!(graphs == 3 && total == 0);
        kani::cover!(graphs == 0 && total == 0);
        kani::cover!(total == 8);
        core::mem::forget(m);
    }

    #[kani::proof]
    fn vk_u07_can_pack() {
        let m: usize = kani::any();
        let a: usize = kani::any();
        let mtu: usize = kani::any();
        kani::assume(mtu > 0 && m.checked_add(a).is_some()); // requires
        kani::assume(m < 4096 && a < 4096 && mtu < 4096); // bound (64-bit symbolic division is intractable for SAT)
        let r = can_pack(m, a, mtu);
        assert!(r == (m % mtu > 0 && (m % mtu) as u128 + a as u128 <= mtu as u128));
        if m <= mtu && r {
            assert!(m + a <= mtu);
        }
        if 0 < m && m < mtu && m + a <= mtu {
            assert!(r);
        }
        kani::cover!(r && m > mtu);
        kani::cover!(!r && m == mtu);
    }

    /// Builds `related` (<= 2 graphs of <= 2 entities) and `standalone` (<= 2 entities); entity index = running number.
    fn any_layout() -> (Vec<Vec<EntityMutations>>, Vec<EntityMutations>, usize) {
        let mut related = Vec::new();
        let mut next: u32 = 0;
        let graphs: usize = kani::any();
        kani::assume(graphs <= 2);
        let mut g = 0;
        while g < graphs {
            let n: usize = kani::any();
            kani::assume(n <= 2);
            let mut v = Vec::new();
            let mut k = 0;
            while k < n {
                v.push(entity_mutations(next));
                next += 1;
                k += 1;
            }
            related.push(v);
            g += 1;
        }
        let s: usize = kani::any();
        kani::assume(s <= 2);
        let mut standalone = Vec::new();
        let mut k = 0;
        while k < s {
            standalone.push(entity_mutations(next));
            next += 1;
            k += 1;
        }
        (related, standalone, next as usize)
    }

    /// Chunking: one chunk per relation graph (all its entities, in order), then one chunk per standalone entity.
    /// A chunk is the unit that is never split across messages.
    #[kani::proof]
    #[kani::unwind(6)]
    fn vk_u07_chunks_iter() {
        let (related, standalone, total) = any_layout();
        let chunks = EntityChunks::new(&related, &standalone);
        let mut seen: u32 = 0; // entities are numbered in layout order: chunks must enumerate 0, 1, 2, ...
        let mut n_chunks = 0usize;
        for chunk in chunks.iter() {
            if n_chunks < related.len() {
                assert!(chunk.len() == related[n_chunks].len()); // a whole graph, never a part of it
            } else {
                assert!(chunk.len() == 1); // a single entity
            }
            for m in chunk {
                assert!(m.entity == Entity::from_raw(seen));
                seen += 1;
            }
            n_chunks += 1;
        }
        assert!(n_chunks == related.len() + standalone.len());
        assert!(seen as usize == total);
        kani::cover!(related.len() == 2 && standalone.len() == 2 && total == 6);
        kani::cover!(total == 0);
        core::mem::forget((related, standalone));
    }

    /// `iter_flatten(a..b)` yields exactly the entities of chunks a..b, in order: what one message carries.
    #[kani::proof]
    #[kani::unwind(8)]
    fn vk_u07_chunks_flatten() {
        let (related, standalone, _total) = any_layout();
        let chunks = EntityChunks::new(&related, &standalone);
        let n = related.len() + standalone.len();
        let a: usize = kani::any();
        let b: usize = kani::any();
        kani::assume(a <= b && b <= n); // requires (debug_assert in the function)
        // expected: entities of chunks a..b in layout order = a contiguous run of entity numbers
        let mut first: u32 = 0;
        let mut count: u32 = 0;
        let mut i = 0;
        while i < n {
            let len = if i < related.len() { related[i].len() as u32 } else { 1 };
            if i < a {
                first += len;
            } else if i < b {
                count += len;
            }
            i += 1;
        }
        let mut k: u32 = 0;
        for m in chunks.iter_flatten(a..b) {
            assert!(m.entity == Entity::from_raw(first + k));
            k += 1;
        }
        assert!(k == count);
        kani::cover!(a < related.len() && b > related.len());
        kani::cover!(a == b);
        core::mem::forget((related, standalone));
    }
}
