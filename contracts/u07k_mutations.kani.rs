#[cfg(kani)]
mod verif_kani {
    use super::*;

    fn entity_mutations(i: u32) -> EntityMutations {
        EntityMutations {
            entity: Entity::from_raw(i),
            ranges: ChangeRanges {
                entity: 0..0,
                components_len: 0,
                components: Vec::new(),
            },
        }
    }

    #[kani::proof]
    #[kani::unwind(5)]
    fn vk_u07_is_empty() {
        let mut m = Mutations::default();
        let graphs: usize = kani::any();
        kani::assume(graphs <= 3);
        let mut total = 0usize;
        let mut g = 0;
        while g < graphs {
            let mut v = Vec::new();
            let n: usize = kani::any();
            kani::assume(n <= 2);
            let mut k = 0;
            while k < n {
                v.push(entity_mutations(k as u32));
                k += 1;
            }
            total += n;
            m.related.push(v);
            g += 1;
        }
        let s: usize = kani::any();
        kani::assume(s <= 2);
        let mut k = 0;
        while k < s {
            m.standalone.push(entity_mutations(10 + k as u32));
            k += 1;
        }
        total += s;
        assert!(m.is_empty() == (total == 0));
        kani::cover!(graphs == 3 && total == 0);
        kani::cover!(graphs == 0 && total == 0);
        kani::cover!(total == 8);
        core::mem::forget(m);
    }

    #[kani::proof]
    fn vk_u07_can_pack() {
        let m: usize = kani::any();
        let a: usize = kani::any();
        let mtu: usize = kani::any();
        kani::assume(mtu > 0 && m.checked_add(a).is_some()); // requires
        kani::assume(m < 4096 && a < 4096 && mtu < 4096); // bound (64-bit symbolic division is intractable for SAT)
        let r = can_pack(m, a, mtu);
        assert!(r == (m % mtu > 0 && (m % mtu) as u128 + a as u128 <= mtu as u128));
        if m <= mtu && r {
            assert!(m + a <= mtu);
        }
        if 0 < m && m < mtu && m + a <= mtu {
            assert!(r);
        }
        kani::cover!(r && m > mtu);
        kani::cover!(!r && m == mtu);
    }
}
