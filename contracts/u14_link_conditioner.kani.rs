#[cfg(kani)]
mod verif_kani {
    use super::*;

    fn conditioner() -> LinkConditioner {
        LinkConditioner {
            rng: Rng::with_seed(1),
            ..Default::default()
        }
    }

    fn base() -> Instant {
        // an arbitrary fixed point in time (Instant has no public constructor other than the clock)
        unsafe { core::mem::zeroed() }
    }

    fn payload(tag: u8) -> Bytes {
        match tag {
            1 => Bytes::from_static(b"a"),
            2 => Bytes::from_static(b"b"),
            _ => Bytes::from_static(b"c"),
        }
    }

    #[kani::proof]
    #[kani::unwind(4)]
    fn vk_u14_order_two() {
        let mut c = conditioner();
        let o1: u16 = kani::any();
        let o2: u16 = kani::any();
        c.insert(None, base() + Duration::from_millis(o1 as u64), 1, payload(1));
        c.insert(None, base() + Duration::from_millis(o2 as u64), 2, payload(2));
        let v = c.heap.into_vec();
        assert!(v.len() == 2);
        let (a, b) = if v[0].channel_id == 1 { (&v[0], &v[1]) } else { (&v[1], &v[0]) };
        assert!(a.channel_id == 1 && b.channel_id == 2);
        let ab = a.cmp(b);
        // distinct queued messages are never "equal": the heap must not be free to permute them
        assert!(ab != Ordering::Equal);
        assert!(b.cmp(a) == ab.reverse());
        assert!(a.partial_cmp(b) == Some(ab));
        if o1 <= o2 {
            assert!(ab == Ordering::Greater); // earlier timestamp, or same timestamp and inserted first: popped first
        } else {
            assert!(ab == Ordering::Less);
        }
        kani::cover!(o1 == o2);
        kani::cover!(o1 > o2);
        core::mem::forget(v);
    }

    #[kani::proof]
    #[kani::unwind(5)]
    fn vk_u14_order_transitive() {
        let mut c = conditioner();
        let o1: u16 = kani::any();
        let o2: u16 = kani::any();
        let o3: u16 = kani::any();
        c.insert(None, base() + Duration::from_millis(o1 as u64), 1, payload(1));
        c.insert(None, base() + Duration::from_millis(o2 as u64), 2, payload(2));
        c.insert(None, base() + Duration::from_millis(o3 as u64), 3, payload(3));
        let v = c.heap.into_vec();
        assert!(v.len() == 3);
        let i: usize = kani::any();
        let j: usize = kani::any();
        let k: usize = kani::any();
        kani::assume(i < 3 && j < 3 && k < 3);
        if v[i].cmp(&v[j]) == Ordering::Greater && v[j].cmp(&v[k]) == Ordering::Greater {
            assert!(v[i].cmp(&v[k]) == Ordering::Greater);
        }
        kani::cover!(o1 == o2 && o2 == o3);
        core::mem::forget(v);
    }

    #[kani::proof]
    #[kani::unwind(5)]
    fn vk_u14_fifo_three() {
        let mut c = conditioner();
        let o1: u8 = kani::any();
        let o2: u8 = kani::any();
        let o3: u8 = kani::any();
        kani::assume(o1 <= o2 && o2 <= o3); // timestamps never decrease: one clock read per receiver frame
        c.insert(None, base() + Duration::from_millis(o1 as u64), 1, payload(1));
        c.insert(None, base() + Duration::from_millis(o2 as u64), 2, payload(2));
        c.insert(None, base() + Duration::from_millis(o3 as u64), 3, payload(3));
        if o1 > 0 {
            // nothing is due yet
            assert!(c.pop(base()).is_none());
        }
        let now = base() + Duration::from_millis(o3 as u64);
        let m1 = c.pop(now);
        let m2 = c.pop(now);
        let m3 = c.pop(now);
        let m4 = c.pop(now);
        assert!(m4.is_none());
        match (m1, m2, m3) {
            (Some((c1, p1)), Some((c2, p2)), Some((c3, p3))) => {
                assert!(c1 == 1 && c2 == 2 && c3 == 3); // per-channel (here: overall) sending order
                assert!(p1.len() == 1 && p1[0] == b'a' && p2[0] == b'b' && p3[0] == b'c');
                core::mem::forget((p1, p2, p3));
            }
            _ => assert!(false, "every queued message that is due must be delivered exactly once"),
        }
        kani::cover!(o1 == o2 && o2 == o3);
        kani::cover!(o1 < o2 && o2 < o3);
    }
}
