#[cfg(kani)]
mod verif_kani {
    use super::*;

    /// A conditioner at an arbitrary point of a connection's life: any number of messages (< 2^32) already went through.
    fn conditioner() -> LinkConditioner {
        let c = LinkConditioner {
            rng: Rng::with_seed(1),
            heap: BinaryHeap::new(),
            sequence: kani::any(),
        };
        kani::assume((c.sequence as u128) < (1u128 << 32)); // requires: fewer than 2^32 messages so far
        c
    }

    fn base() -> Instant {
        // an arbitrary fixed point in time (Instant has no public constructor other than the clock)
        unsafe { core::mem::zeroed() }
    }

    fn payload(tag: u8) -> Bytes {
        match tag {
            1 => Bytes::from_static(b"a"),
            2 => Bytes::from_static(b"b"),
            _ => Bytes::from_static(b"c"),
        }
    }

    #[kani::proof]
    #[kani::unwind(4)]
    fn vk_u14_order_two() {
        let mut c = conditioner();
        let o1: u16 = kani::any();
        let o2: u16 = kani::any();
        c.insert(None, base() + Duration::from_millis(o1 as u64), 1, payload(1));
        c.insert(None, base() + Duration::from_millis(o2 as u64), 2, payload(2));
        let v = c.heap.into_vec();
        assert!(v.len() == 2);
        let (a, b) = if v[0].channel_id == 1 { (&v[0], &v[1]) } else { (&v[1], &v[0]) };
        assert!(a.channel_id == 1 && b.channel_id == 2);
        let ab = a.cmp(b);
        // distinct queued messages are never "equal": the heap must not be free to permute them
        assert!(ab != Ordering::Equal);
        assert!(b.cmp(a) == ab.reverse());
        assert!(a.partial_cmp(b) == Some(ab));
        if o1 <= o2 {
            assert!(ab == Ordering::Greater); // earlier timestamp, or same timestamp and inserted first: popped first
        } else {
            assert!(ab == Ordering::Less);
        }
        kani::cover!(o1 == o2);
        kani::cover!(o1 > o2);
        core::mem::forget(v);
    }

    #[kani::proof]
    #[kani::unwind(5)]
    fn vk_u14_order_transitive() {
        let mut c = conditioner();
        let o1: u16 = kani::any();
        let o2: u16 = kani::any();
        let o3: u16 = kani::any();
        c.insert(None, base() + Duration::from_millis(o1 as u64), 1, payload(1));
        c.insert(None, base() + Duration::from_millis(o2 as u64), 2, payload(2));
        c.insert(None, base() + Duration::from_millis(o3 as u64), 3, payload(3));
        let v = c.heap.into_vec();
        assert!(v.len() == 3);
        let i: usize = kani::any();
        let j: usize = kani::any();
        let k: usize = kani::any();
        kani::assume(i < 3 && j < 3 && k < 3);
        if v[i].cmp(&v[j]) == Ordering::Greater && v[j].cmp(&v[k]) == Ordering::Greater {
            assert!(v[i].cmp(&v[k]) == Ordering::Greater);
        }
        kani::cover!(o1 == o2 && o2 == o3);
        core::mem::forget(v);
    }

    /// `pop` hands out a message exactly when it is due, exactly once, channel unchanged.
    #[kani::proof]
    #[kani::unwind(4)]
    fn vk_u14_pop_due() {
        let mut c = conditioner();
        let o: u16 = kani::any();
        let n: u16 = kani::any();
        let ch: u8 = kani::any();
        assert!(c.pop(base()).is_none()); // empty queue
        c.insert(None, base() + Duration::from_millis(o as u64), ch, Bytes::new());
        let r = c.pop(base() + Duration::from_millis(n as u64));
        match r {
            Some((got, p)) => {
                assert!(n >= o && got == ch);
                core::mem::forget(p);
                assert!(c.pop(base() + Duration::from_millis(u16::MAX as u64)).is_none()); // delivered once
            }
            None => {
                assert!(n < o);
                // still queued: delivered as soon as it is due
                let later = c.pop(base() + Duration::from_millis(o as u64));
                assert!(later.is_some());
                core::mem::forget(later);
            }
        }
        kani::cover!(n == o);
        kani::cover!(n < o);
        core::mem::forget(c);
    }

    /// A `pop` that hands out nothing (queue not yet due) must not disturb the order of what is queued around it.
    #[kani::proof]
    #[kani::unwind(4)]
    fn vk_u14_order_across_early_pop() {
        let mut c = conditioner();
        let o1: u8 = kani::any();
        let o2: u8 = kani::any();
        kani::assume(o1 > 0);
        c.insert(None, base() + Duration::from_millis(o1 as u64), 1, Bytes::new());
        assert!(c.pop(base()).is_none()); // nothing is due at time 0
        c.insert(None, base() + Duration::from_millis(o2 as u64), 2, Bytes::new());
        let v = c.heap.into_vec();
        assert!(v.len() == 2);
        let (a, b) = if v[0].channel_id == 1 { (&v[0], &v[1]) } else { (&v[1], &v[0]) };
        let ab = a.cmp(b);
        if o1 <= o2 {
            assert!(ab == Ordering::Greater); // queued first, not later in time: still delivered first
        } else {
            assert!(ab == Ordering::Less);
        }
        kani::cover!(o1 == o2);
        core::mem::forget(v);
    }
}
