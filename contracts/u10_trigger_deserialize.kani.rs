#[cfg(kani)]
mod verif_kani {
    extern crate std;
    use super::*;
    use core::mem::MaybeUninit;

    fn no_backtrace() -> std::backtrace::Backtrace {
        std::backtrace::Backtrace::disabled()
    }

    fn de_u8(_ctx: &mut ServerReceiveCtx, message: &mut Bytes) -> Result<u8> {
        Ok(postcard_utils::from_buf::<u8, _>(message)?)
    }

    const MAX: usize = 4;

    #[kani::proof]
    #[kani::unwind(6)]
    #[kani::stub(std::backtrace::Backtrace::capture, no_backtrace)]
    fn vk_u10_trigger_total() {
        let registry = MaybeUninit::<AppTypeRegistry>::uninit();
        let mut ctx = ServerReceiveCtx {
            type_registry: unsafe { &*registry.as_ptr() },
        };
        let data: [u8; MAX] = kani::any();
        let len: usize = kani::any();
        kani::assume(len <= MAX);
        let mut msg = Bytes::copy_from_slice(&data[..len]);
        let r = trigger_deserialize::<u8>(&mut ctx, &mut msg, de_u8);
        match r {
            Ok(t) => {
                // allocation in proportion to the message: every target costs at least one byte
                assert!(t.targets.capacity() <= len);
                assert!(t.targets.len() < len);
                assert!(msg.len() + t.targets.len() + 2 <= len);
                kani::cover!(t.targets.len() == 2);
                kani::cover!(t.targets.len() == 0 && msg.len() > 0);
                core::mem::forget(t);
            }
            Err(e) => {
                kani::cover!(len == MAX);
                core::mem::forget(e);
            }
        }
        core::mem::forget(msg);
    }

    #[kani::proof]
    #[kani::unwind(13)]
    #[kani::stub(std::backtrace::Backtrace::capture, no_backtrace)]
    fn vk_u10_trigger_huge_len() {
        let registry = MaybeUninit::<AppTypeRegistry>::uninit();
        let mut ctx = ServerReceiveCtx {
            type_registry: unsafe { &*registry.as_ptr() },
        };
        let mut data: [u8; 11] = kani::any();
        // a 10-byte varint: continuation bit on the first nine bytes
        let mut i = 0;
        while i < 9 {
            data[i] |= 0x80;
            i += 1;
        }
        let len: usize = kani::any();
        kani::assume(len == 10 || len == 11);
        let mut msg = Bytes::copy_from_slice(&data[..len]);
        let r = trigger_deserialize::<u8>(&mut ctx, &mut msg, de_u8);
        match r {
            Ok(t) => {
                assert!(t.targets.capacity() <= len);
                core::mem::forget(t);
            }
            Err(e) => {
                kani::cover!(data[9] == 1);
                kani::cover!(data[9] == 0 && data[8] == 0xff);
                core::mem::forget(e);
            }
        }
        core::mem::forget(msg);
    }

    /// Cheap variant for the quick tier: the nine continuation bytes are fixed to 0xff, the final length byte and one
    /// trailing byte are symbolic (lengths 2^63 - 1 and 2^64 - 1, or a malformed varint).
    #[kani::proof]
    #[kani::unwind(13)]
    #[kani::stub(std::backtrace::Backtrace::capture, no_backtrace)]
    fn vk_u10_trigger_huge_len_quick() {
        let registry = MaybeUninit::<AppTypeRegistry>::uninit();
        let mut ctx = ServerReceiveCtx {
            type_registry: unsafe { &*registry.as_ptr() },
        };
        let mut data: [u8; 11] = [0xff; 11];
        data[9] = kani::any();
        data[10] = kani::any();
        let len: usize = kani::any();
        kani::assume(len == 10 || len == 11);
        let mut msg = Bytes::copy_from_slice(&data[..len]);
        let r = trigger_deserialize::<u8>(&mut ctx, &mut msg, de_u8);
        match r {
            Ok(t) => {
                assert!(t.targets.capacity() <= len);
                core::mem::forget(t);
            }
            Err(e) => {
                kani::cover!(data[9] == 1);
                kani::cover!(data[9] == 0);
                core::mem::forget(e);
            }
        }
        core::mem::forget(msg);
    }
}
