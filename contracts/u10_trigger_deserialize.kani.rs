#[cfg(kani)]
mod verif_kani {
    extern crate std;
    use super::*;
    use core::mem::MaybeUninit;

    fn no_backtrace() -> std::backtrace::Backtrace {
        std::backtrace::Backtrace::disabled()
    }

    fn de_u8(_ctx: &mut ServerReceiveCtx, message: &mut Bytes) -> Result<u8> {
        Ok(postcard_utils::from_buf::<u8, _>(message)?)
    }

    const MAX: usize = 3;

    /// Stands in for `Vec::with_capacity` inside the proofs: the reservation requested for the target list must be in
    /// proportion to the message (every target costs at least one byte, and no message of this harness exceeds MAX bytes).
    fn checked_with_capacity<T>(capacity: usize) -> Vec<T> {
        assert!(capacity <= MAX, "reservation out of proportion to the message");
        Vec::new()
    }
    // the explicit reservation APIs get the same treatment (Vec::push grows through RawVec internals, not through these)
    fn checked_reserve<T, A: core::alloc::Allocator>(_v: &mut Vec<T, A>, additional: usize) {
        assert!(additional <= MAX, "reservation out of proportion to the message");
    }
    fn checked_try_reserve<T, A: core::alloc::Allocator>(_v: &mut Vec<T, A>, additional: usize) -> core::result::Result<(), alloc::collections::TryReserveError> {
        assert!(additional <= MAX, "reservation out of proportion to the message");
        Ok(())
    }

    #[kani::proof]
    #[kani::unwind(5)]
    #[kani::stub(std::backtrace::Backtrace::capture, no_backtrace)]
    #[kani::stub(alloc::vec::Vec::with_capacity, checked_with_capacity)]
    #[kani::stub(alloc::vec::Vec::reserve, checked_reserve)]
    #[kani::stub(alloc::vec::Vec::reserve_exact, checked_reserve)]
    #[kani::stub(alloc::vec::Vec::try_reserve, checked_try_reserve)]
    #[kani::stub(alloc::vec::Vec::try_reserve_exact, checked_try_reserve)]
    fn vk_u10_trigger_total() {
        let registry = MaybeUninit::<AppTypeRegistry>::uninit();
        let mut ctx = ServerReceiveCtx {
            type_registry: unsafe { &*registry.as_ptr() },
        };
        let data: [u8; MAX] = kani::any();
        let len: usize = kani::any();
        kani::assume(len <= MAX);
        let mut msg = Bytes::copy_from_slice(&data[..len]);
        let r = trigger_deserialize::<u8>(&mut ctx, &mut msg, de_u8);
        match r {
            Ok(t) => {
                // (the reservation itself is checked on every path by the `with_capacity` stand-in)
                assert!(t.targets.len() < len);
                assert!(msg.len() + t.targets.len() + 2 <= len);
                kani::cover!(t.targets.len() == 1);
                kani::cover!(t.targets.len() == 0 && msg.len() > 0);
                core::mem::forget(t);
            }
            Err(e) => {
                kani::cover!(len == MAX);
                core::mem::forget(e);
            }
        }
        core::mem::forget(msg);
    }

    #[kani::proof]
    #[kani::unwind(13)]
    #[kani::stub(std::backtrace::Backtrace::capture, no_backtrace)]
    fn vk_u10_trigger_huge_len() {
        let registry = MaybeUninit::<AppTypeRegistry>::uninit();
        let mut ctx = ServerReceiveCtx {
            type_registry: unsafe { &*registry.as_ptr() },
        };
        let mut data: [u8; 11] = kani::any();
        // a 10-byte varint: continuation bit on the first nine bytes
        let mut i = 0;
        while i < 9 {
            data[i] |= 0x80;
            i += 1;
        }
        let len: usize = kani::any();
        kani::assume(len == 10 || len == 11);
        let mut msg = Bytes::copy_from_slice(&data[..len]);
        let r = trigger_deserialize::<u8>(&mut ctx, &mut msg, de_u8);
        match r {
            Ok(t) => {
                assert!(t.targets.capacity() <= len);
                core::mem::forget(t);
            }
            Err(e) => {
                kani::cover!(data[9] == 1);
                kani::cover!(data[9] == 0 && data[8] == 0xff);
                core::mem::forget(e);
            }
        }
        core::mem::forget(msg);
    }

    /// Quick-tier companions of `vk_u10_trigger_huge_len`: two fully concrete messages whose length prefix sits at the
    /// overflow points of any byte-size computation (2^61 targets; 2^64 - 1 targets). Concrete inputs keep CBMC fast.
    fn huge_len_concrete(data: &[u8]) {
        let registry = MaybeUninit::<AppTypeRegistry>::uninit();
        let mut ctx = ServerReceiveCtx {
            type_registry: unsafe { &*registry.as_ptr() },
        };
        let mut msg = Bytes::copy_from_slice(data);
        let r = trigger_deserialize::<u8>(&mut ctx, &mut msg, de_u8);
        match r {
            Ok(t) => {
                assert!(false, "a length prefix far beyond the message cannot decode");
                core::mem::forget(t);
            }
            Err(e) => {
                kani::cover!(true);
                core::mem::forget(e);
            }
        }
        core::mem::forget(msg);
    }

    #[kani::proof]
    #[kani::unwind(13)]
    #[kani::stub(std::backtrace::Backtrace::capture, no_backtrace)]
    fn vk_u10_trigger_len_2_61() {
        huge_len_concrete(&[0x80, 0x80, 0x80, 0x80, 0x80, 0x80, 0x80, 0x80, 0x20]);
    }

    #[kani::proof]
    #[kani::unwind(13)]
    #[kani::stub(std::backtrace::Backtrace::capture, no_backtrace)]
    fn vk_u10_trigger_len_max() {
        huge_len_concrete(&[0xff, 0xff, 0xff, 0xff, 0xff, 0xff, 0xff, 0xff, 0xff, 0x01]);
    }
}
