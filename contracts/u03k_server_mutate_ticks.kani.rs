#[cfg(kani)]
mod verif_kani {
    use super::*;

    /// Any ring state: 64 slots with arbitrary counters, arbitrary last tick.
    fn any_ticks() -> ServerMutateTicks {
        let mut t = ServerMutateTicks::default();
        let mut i = 0;
        while i < 64 {
            t.ticks[i] = TickMessages {
                messages_count: kani::any(),
                received: kani::any(),
            };
            i += 1;
        }
        t.last_tick = RepliconTick::new(kani::any());
        t
    }

    fn done(m: &TickMessages) -> bool {
        m.messages_count != 0 && m.messages_count == m.received
    }

    /// Oracle: plain set of fully received ticks, anything older than the window counts as received.
    fn model_contains(t: &ServerMutateTicks, p: RepliconTick) -> bool {
        let ago = t.last_tick - p;
        p <= t.last_tick && (ago >= 64 || done(&t.ticks[ago as usize]))
    }

    #[kani::proof]
    #[kani::unwind(66)]
    fn vk_u03_default() {
        let t = ServerMutateTicks::default();
        assert!(t.ticks.len() == 64);
        assert!(t.last_tick() == RepliconTick::new(0));
        let i: usize = kani::any();
        kani::assume(i < 64);
        assert!(t.ticks[i].messages_count == 0 && t.ticks[i].received == 0);
        let p = RepliconTick::new(kani::any());
        kani::assume(p.get() < 64);
        assert!(!t.contains(p) || p.get() > 0 && false);
        kani::cover!(true);
    }

    #[kani::proof]
    #[kani::unwind(66)]
    fn vk_u03_clear() {
        let mut t = any_ticks();
        t.clear();
        assert!(t.ticks.len() == 64);
        assert!(t.last_tick == RepliconTick::default());
        let i: usize = kani::any();
        kani::assume(i < 64);
        assert!(t.ticks[i].messages_count == 0 && t.ticks[i].received == 0);
        kani::cover!(true);
    }

    #[kani::proof]
    #[kani::unwind(66)]
    fn vk_u03_mask() {
        let t = any_ticks();
        let m = t.mask();
        let i: usize = kani::any();
        kani::assume(i < 64);
        assert!(((m >> i) & 1 == 1) == done(&t.ticks[i]));
        kani::cover!(m == u64::MAX);
        kani::cover!(m == 1 << 63);
    }
}
