#[cfg(kani)]
mod verif_kani_shims {
    use super::*;

    const MAX_CHANGE_AGE: u32 = u32::MAX - (2 * 518_400_000 - 1);

    fn age(this_run: u32, t: u32) -> u32 {
        let d = this_run.wrapping_sub(t);
        if d < MAX_CHANGE_AGE { d } else { MAX_CHANGE_AGE }
    }

    /// shims/tick.vrs: tick_newer(t, last_run, this_run) == tick_age(this_run, last_run) > tick_age(this_run, t)
    #[kani::proof]
    fn vk_shim_tick_is_newer_than() {
        let (t, last, this): (u32, u32, u32) = (kani::any(), kani::any(), kani::any());
        let real = Tick::new(t).is_newer_than(Tick::new(last), Tick::new(this));
        assert!(real == (age(this, last) > age(this, t)));
        assert!(bevy::ecs::change_detection::MAX_CHANGE_AGE == MAX_CHANGE_AGE);
        kani::cover!(real && this < t);
        kani::cover!(!real && this.wrapping_sub(t) >= MAX_CHANGE_AGE);
    }
}
