#[cfg(kani)]
mod verif_kani {
    extern crate std;
    use super::*;
    use bytes::Bytes;
    use crate::shared::postcard_utils;

    fn no_backtrace() -> std::backtrace::Backtrace {
        std::backtrace::Backtrace::disabled()
    }

    #[kani::proof]
    fn vk_u04_advance() {
        let v: u16 = kani::any();
        let mut i = MutateIndex(v);
        let r = i.advance();
        assert!(r == MutateIndex(v));
        assert!(i == MutateIndex(v.wrapping_add(1)));
        kani::cover!(v == u16::MAX);
    }

    #[kani::proof]
    #[kani::unwind(5)]
    #[kani::stub(std::backtrace::Backtrace::capture, no_backtrace)]
    fn vk_u04_decode_total() {
        let data: [u8; 3] = kani::any();
        let len: usize = kani::any();
        kani::assume(len <= 3);
        let mut msg = Bytes::copy_from_slice(&data[..len]);
        let r = postcard_utils::from_buf::<MutateIndex, _>(&mut msg);
        match r {
            Ok(i) => {
                assert!(len >= 2);
                assert!(i == MutateIndex(u16::from_le_bytes([data[0], data[1]])));
                assert!(msg.len() == len - 2);
                kani::cover!(len == 3);
            }
            Err(e) => {
                assert!(len < 2);
                kani::cover!(len == 1);
                core::mem::forget(e);
            }
        }
        core::mem::forget(msg);
    }
}
