#[cfg(kani)]
mod verif_kani {
    use super::*;

    /// Oracle: ticks less than half the counter range apart are ordered by wrapping distance.
    #[kani::proof]
    fn vk_u01_cmp_wrapping_order() {
        let a: u32 = kani::any();
        let b: u32 = kani::any();
        let ta = RepliconTick::new(a);
        let tb = RepliconTick::new(b);
        let d = b.wrapping_sub(a);
        let c = ta.cmp(&tb);
        // Equal exactly on equality.
        assert!((c == Ordering::Equal) == (a == b));
        if d > 0 && d < (1u32 << 31) {
            // b is ahead of a by d < 2^31 steps
            assert!(c == Ordering::Less);
            assert!(tb.cmp(&ta) == Ordering::Greater);
            assert!(ta < tb && tb > ta && ta <= tb && tb >= ta && ta != tb);
        }
        if d != (1u32 << 31) {
            assert!(tb.cmp(&ta) == c.reverse());
        }
        kani::cover!(d > 0 && d < (1u32 << 31) && b < a); // across the 32-bit wrap point
        kani::cover!(d == (1u32 << 31));
        kani::cover!(a == b);
    }

    /// The exact oracle the Verus units assume for `cmp` (`tick_order` in contracts/replicon_tick.vrs).
    #[kani::proof]
    fn vk_u01_cmp_exact_oracle() {
        let a: u32 = kani::any();
        let b: u32 = kani::any();
        let d = a.wrapping_sub(b);
        let want = if d == 0 { Ordering::Equal } else if d > 0x7fff_ffff { Ordering::Less } else { Ordering::Greater };
        assert!(RepliconTick::new(a).cmp(&RepliconTick::new(b)) == want);
        kani::cover!(d == 0x8000_0000);
        kani::cover!(d == 0x7fff_ffff);
    }

    #[kani::proof]
    fn vk_u01_partial_cmp() {
        let ta = RepliconTick::new(kani::any());
        let tb = RepliconTick::new(kani::any());
        let c = ta.cmp(&tb);
        assert!(ta.partial_cmp(&tb) == Some(c));
        assert!((ta < tb) == (c == Ordering::Less));
        assert!((ta <= tb) == (c != Ordering::Greater));
        assert!((ta > tb) == (c == Ordering::Greater));
        assert!((ta >= tb) == (c != Ordering::Less));
        kani::cover!(true);
    }

    #[kani::proof]
    fn vk_u01_arith() {
        let a: u32 = kani::any();
        let n: u32 = kani::any();
        let ta = RepliconTick::new(a);
        assert!(ta.get() == a);
        assert!((ta + n) - ta == n);
        assert!((ta + n) - n == ta);
        assert!(ta - (ta - n) == n);
        assert!((ta + n).get() == a.wrapping_add(n));
        assert!((ta - n).get() == a.wrapping_sub(n));
        let mut x = ta;
        x += n;
        assert!(x == ta + n);
        let mut y = ta;
        y -= n;
        assert!(y == ta - n);
        if n > 0 && n < (1u32 << 31) {
            assert!(ta + n > ta);
            assert!(ta - n < ta);
        }
        kani::cover!(a.checked_add(n).is_none());
    }
}
