#[cfg(kani)]
macro_rules! trace {
    ($($t:tt)*) => {};
}
