#[cfg(kani)]
mod verif_kani {
    use super::*;
    use alloc::vec::Vec;
    use bytes::Bytes;

    const MAX: usize = 6;

    fn any_bytes() -> (Bytes, [u8; MAX], usize) {
        let data: [u8; MAX] = kani::any();
        let len: usize = kani::any();
        kani::assume(len <= MAX);
        (Bytes::copy_from_slice(&data[..len]), data, len)
    }

    #[kani::proof]
    #[kani::unwind(8)]
    fn vk_u09_buf_flavor_pop() {
        let (mut b, data, len) = any_bytes();
        {
            let mut f = BufFlavor::new(&mut b);
            assert!(f.size_hint() == Some(len));
            let r = f.pop();
            match r {
                Ok(v) => {
                    assert!(len > 0 && v == data[0]);
                    assert!(f.size_hint() == Some(len - 1));
                }
                Err(_) => {
                    assert!(len == 0);
                    assert!(f.size_hint() == Some(0));
                }
            }
            assert!(f.finalize().is_ok());
        }
        kani::cover!(len == 0);
        kani::cover!(len == MAX);
        core::mem::forget(b);
    }

    #[kani::proof]
    #[kani::unwind(8)]
    fn vk_u09_buf_flavor_take_n() {
        let (mut b, data, len) = any_bytes();
        let ct: usize = kani::any();
        let i: usize = kani::any();
        {
            let mut f = BufFlavor::new(&mut b);
            let r = f.try_take_n(ct);
            match r {
                Ok(s) => {
                    assert!(ct <= len && s.len() == ct);
                    if i < ct {
                        assert!(s[i] == data[i]);
                    }
                    assert!(f.size_hint() == Some(len - ct));
                }
                Err(_) => {
                    assert!(ct > len);
                    assert!(f.size_hint() == Some(len));
                }
            }
        }
        kani::cover!(ct == len && len > 0);
        kani::cover!(ct > len);
        core::mem::forget(b);
    }

    #[kani::proof]
    #[kani::unwind(8)]
    fn vk_u09_extend_flavor() {
        let mut v: Vec<u8> = Vec::new();
        let first: u8 = kani::any();
        v.push(first);
        let x: u8 = kani::any();
        let s: [u8; 3] = kani::any();
        {
            let mut f = ExtendMutFlavor::new(&mut v);
            assert!(f.try_push(x).is_ok());
            assert!(f.try_extend(&s).is_ok());
            assert!(f.finalize().is_ok());
        }
        assert!(v.len() == 5);
        assert!(v[0] == first && v[1] == x && v[2] == s[0] && v[3] == s[1] && v[4] == s[2]);
        kani::cover!(true);
    }
}
