//! C08 demo for seed `a`. Integration test: copy to `tests/c08_demo_a.rs`.
//!
//! Blacklist policy. An entity that has been hidden for at least one tick is shown and
//! hidden again inside one tick window (show-hide, i.e. two mutually cancelling calls).
//! The most recent setting is "hidden", so the visibility query must report hidden and
//! nothing about the entity may reach the client.

use bevy::prelude::*;
use bevy_replicon::{
    prelude::*,
    test_app::{ServerTestAppExt, TestClientEntity},
};
use serde::{Deserialize, Serialize};


#[derive(Component, Deserialize, Serialize)]
struct Secret(u32);

fn apps() -> (App, App, Entity) {
    let mut server_app = App::new();
    let mut client_app = App::new();
    for app in [&mut server_app, &mut client_app] {
        app.add_plugins((
            MinimalPlugins,
            RepliconPlugins.set(ServerPlugin {
                tick_policy: TickPolicy::EveryFrame,
                visibility_policy: VisibilityPolicy::Blacklist,
                ..Default::default()
            }),
        ))
        .replicate::<Secret>()
        .finish();
    }
    server_app.connect_client(&mut client_app);
    let client = **client_app.world().resource::<TestClientEntity>();
    (server_app, client_app, client)
}

fn tick(server_app: &mut App, client_app: &mut App) {
    server_app.update();
    server_app.exchange_with_client(client_app);
    client_app.update();
    server_app.exchange_with_client(client_app);
}

#[test]
fn remove_and_reinsert_replicated_on_hidden_entity() {
    let (mut server_app, mut client_app, client) = apps();
    let e = server_app.world_mut().spawn((Replicated, Secret(1))).id();
    server_app.world_mut().get_mut::<ClientVisibility>(client).unwrap().set_visibility(e, false);
    tick(&mut server_app, &mut client_app);
    let mut secrets = client_app.world_mut().query::<&Secret>();
    assert_eq!(secrets.iter(client_app.world()).count(), 0);

    // one tick window: Replicated removed and re-inserted on the live, hidden entity
    server_app.world_mut().entity_mut(e).remove::<Replicated>();
    server_app.world_mut().entity_mut(e).insert(Replicated);
    let vis = server_app.world().get::<ClientVisibility>(client).unwrap().is_visible(e);
    println!("is_visible right after remove+insert: {vis}");
    tick(&mut server_app, &mut client_app);
    let vis = server_app.world().get::<ClientVisibility>(client).unwrap().is_visible(e);
    println!("is_visible after the tick: {vis}");
    let mut secrets = client_app.world_mut().query::<&Secret>();
    let n = secrets.iter(client_app.world()).count();
    println!("client holds {n} Secret components");
    assert!(!vis, "most recent setting of the live entity is hidden");
    assert_eq!(n, 0, "component data of a hidden entity reached the client");
}
