// BOUNDED native stand-in (unit u08n, runs on every check): the bookkeeping of `Updates` across ticks, including `clear`
// (iterator adapters: outside Verus' subset). Every operation sequence up to VERIF_DEPTH against a plain model of the
// four sections; after every step: recorded ranges denote exactly the recorded bytes, per-section counts equal the number
// of recorded items, `flags()` announces exactly the non-empty sections, `is_empty()` <=> nothing recorded, and `clear()`
// (end of tick) forgets everything - no count or range survives into the next tick's message.
#[cfg(test)]
mod verif_search_n {
    extern crate std;
    use super::*;
    use std::{format, string::String, vec::Vec, println};

    fn guarded<F: FnOnce() -> Option<String>>(f: F) -> Option<String> {
        match std::panic::catch_unwind(std::panic::AssertUnwindSafe(f)) {
            Ok(r) => r,
            Err(p) => {
                let msg = p.downcast_ref::<&str>().map(|s| String::from(*s)).or_else(|| p.downcast_ref::<String>().cloned()).unwrap_or_default();
                Some(format!("the real code panicked: {msg}"))
            }
        }
    }

    #[derive(Clone, Copy, Debug, PartialEq)]
    enum Op { Mappings, Despawn(bool), Removals, Entity, Component(bool), Clear }

    fn all_ops() -> Vec<Op> {
        std::vec![Op::Mappings, Op::Despawn(true), Op::Despawn(false), Op::Removals, Op::Entity, Op::Component(true), Op::Component(false), Op::Clear]
    }

    fn denote(rs: &[Range<usize>]) -> Vec<usize> { rs.iter().flat_map(|r| r.clone()).collect() }

    fn run(ops: &[Op]) -> Option<String> {
        let mut real = Updates::default();
        let mut pos = 0usize; // next free byte of the (imaginary) serialized buffer
        let mut mappings: Vec<usize> = Vec::new();
        let mut mappings_len = 0usize;
        let mut despawns: Vec<usize> = Vec::new();
        let mut despawns_n = 0usize;
        let mut removals_n = 0usize;
        let mut changes: Vec<(Vec<usize>, usize)> = Vec::new(); // per entity: component bytes, component count
        for (step, op) in ops.iter().enumerate() {
            match *op {
                Op::Mappings => { real.set_mappings(pos..pos + 2, 1); mappings = (pos..pos + 2).collect(); mappings_len = 1; pos += 2; }
                Op::Despawn(adjacent) => {
                    if !adjacent { pos += 1; } // leave a gap so the range cannot be merged
                    real.add_despawn(pos..pos + 1);
                    despawns.push(pos); despawns_n += 1; pos += 1;
                }
                Op::Removals => { real.add_removals(pos..pos + 1, 1, pos + 1..pos + 2); removals_n += 1; pos += 2; }
                Op::Entity => { real.add_changed_entity(pos..pos + 1); changes.push((Vec::new(), 0)); pos += 1; }
                Op::Component(adjacent) => {
                    let Some(last) = changes.last_mut() else { continue; }; // precondition: an entity was recorded
                    if !adjacent { pos += 1; }
                    real.add_inserted_component(pos..pos + 2);
                    last.0.extend(pos..pos + 2); last.1 += 1; pos += 2;
                }
                Op::Clear => { real.clear(); mappings.clear(); mappings_len = 0; despawns.clear(); despawns_n = 0; removals_n = 0; changes.clear(); }
            }
            if denote(core::slice::from_ref(&real.mappings)) != mappings || real.mappings_len != mappings_len {
                return Some(format!("step {step} ({op:?}): mappings {:?}/{} , model {mappings:?}/{mappings_len}", real.mappings, real.mappings_len));
            }
            if denote(&real.despawns) != despawns { return Some(format!("step {step} ({op:?}): despawn ranges {:?} denote {:?}, model {despawns:?}", real.despawns, denote(&real.despawns))); }
            if real.despawns_len != despawns_n { return Some(format!("step {step} ({op:?}): despawns_len = {}, model {despawns_n}", real.despawns_len)); }
            if real.removals.len() != removals_n { return Some(format!("step {step} ({op:?}): {} removals, model {removals_n}", real.removals.len())); }
            if real.changes.len() != changes.len() { return Some(format!("step {step} ({op:?}): {} changed entities, model {}", real.changes.len(), changes.len())); }
            for (i, (bytes, n)) in changes.iter().enumerate() {
                if denote(&real.changes[i].components) != *bytes || real.changes[i].components_len != *n {
                    return Some(format!("step {step} ({op:?}): entity {i}: components {:?}/{} , model {bytes:?}/{n}", real.changes[i].components, real.changes[i].components_len));
                }
            }
            let f = real.flags();
            let want = [(UpdateMessageFlags::MAPPINGS, !mappings.is_empty()), (UpdateMessageFlags::DESPAWNS, despawns_n > 0),
                        (UpdateMessageFlags::REMOVALS, removals_n > 0), (UpdateMessageFlags::CHANGES, !changes.is_empty())];
            for (flag, w) in want { if f.contains(flag) != w { return Some(format!("step {step} ({op:?}): flag {flag:?} = {}, model {w}", !w)); } }
            let empty = want.iter().all(|(_, w)| !w);
            if real.is_empty() != empty { return Some(format!("step {step} ({op:?}): is_empty() = {}, model {empty}", !empty)); }
        }
        None
    }

    fn show(ops: &[Op]) -> String { ops.iter().map(|o| format!("{o:?}").replace("true", "adj").replace("false", "gap").replace(['(', ')'], "-")).collect::<Vec<_>>().join(",") }
    fn parse(sv: &str) -> Vec<Op> {
        sv.split(',').filter(|t| !t.is_empty()).map(|t| match t {
            "Mappings" => Op::Mappings, "Despawn-adj-" => Op::Despawn(true), "Despawn-gap-" => Op::Despawn(false), "Removals" => Op::Removals,
            "Entity" => Op::Entity, "Component-adj-" => Op::Component(true), "Component-gap-" => Op::Component(false), _ => Op::Clear,
        }).collect()
    }

    #[test]
    fn verif_native_u08n() {
        if let Ok(fixed) = std::env::var("VERIF_OPS") {
            let ops = parse(&fixed);
            if let Some(why) = guarded(|| run(&ops)) {
                println!("VERIF-COUNTEREXAMPLE policy=- ops={} :: {why}", show(&ops));
                panic!("contract violated on the real code: {why}");
            }
            return;
        }
        let depth: usize = std::env::var("VERIF_DEPTH").ok().and_then(|d| d.parse().ok()).unwrap_or(5);
        let ops = all_ops();
        let mut explored = 0usize;
        for len in 0..=depth {
            let mut idx = std::vec![0usize; len];
            loop {
                let seq: Vec<Op> = idx.iter().map(|&k| ops[k]).collect();
                explored += 1;
                if let Some(why) = guarded(|| run(&seq)) {
                    println!("VERIF-COUNTEREXAMPLE policy=- ops={} :: {why}", show(&seq));
                    panic!("contract violated on the real code: {why}");
                }
                let mut k = 0;
                while k < len { idx[k] += 1; if idx[k] < ops.len() { break; } idx[k] = 0; k += 1; }
                if k == len { break; }
            }
        }
        println!("VERIF-EXPLORED sequences={explored}");
    }
}
