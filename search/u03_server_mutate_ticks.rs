// Counterexample SEARCH / bounded stand-in for unit u03 (not the deciding step): run natively next to the real
// ServerMutateTicks. Enumerates confirmation sequences (tick offsets around the window edge and the 2^32 wrap, 1 or 2
// messages per tick) against a plain-map reference model; compares contains() for every tick near the window, mask(),
// last_tick() and the value returned by confirm().
#[cfg(test)]
mod verif_search {
    extern crate std;
    use super::*;
    use std::{collections::BTreeMap, format, string::String, vec::Vec, println};

    /// A panic inside the real code is a failure of the contract too: report it with the operation sequence.
    fn guarded<F: FnOnce() -> Option<String>>(f: F) -> Option<String> {
        match std::panic::catch_unwind(std::panic::AssertUnwindSafe(f)) {
            Ok(r) => r,
            Err(p) => {
                let msg = p.downcast_ref::<&str>().map(|s| String::from(*s)).or_else(|| p.downcast_ref::<String>().cloned()).unwrap_or_default();
                Some(format!("the real code panicked: {msg}"))
            }
        }
    }

    const OFFS: [i64; 12] = [-70, -64, -63, -2, -1, 0, 1, 2, 63, 64, 65, 70];

    /// op = (index into OFFS relative to the current last tick, messages_count)
    /// Sequences of at most one operation are also probed with every range query (cheap), so that a refuted
    /// `contains_any` obligation of the Verus unit gets a concrete input from this search as well.
    fn run(start: u32, ops: &[(usize, usize)]) -> Option<String> { run_with(start, ops, ops.len() <= 1) }

    /// `ranges`: additionally compare `contains_any(a, b)` for every range around the window with the model
    /// (exists t in [a, b]: received_all(t)); `contains_any` is out of reach of both verifiers.
    fn run_with(start: u32, ops: &[(usize, usize)], ranges: bool) -> Option<String> {
        let mut start = start;
        let mut real = ServerMutateTicks::default();
        real.last_tick = RepliconTick::new(start);
        let mut last: i64 = 0; // model ticks as offsets from `start`
        let mut seen: BTreeMap<i64, (usize, usize)> = BTreeMap::new(); // tick -> (count, received)
        for (step, &(o, count)) in ops.iter().enumerate() {
            if o >= OFFS.len() {
                // `clear()` (client reset): nothing received any more, last tick back to the default tick
                real.clear();
                seen.clear();
                start = 0;
                last = 0;
                if real.last_tick() != RepliconTick::new(0) { return Some(format!("step {step}: clear() left last_tick = {:?}", real.last_tick())); }
                if real.mask() != 0 { return Some(format!("step {step}: clear() left mask {:#x}", real.mask())); }
                continue;
            }
            let t = last + OFFS[o];
            let tick = RepliconTick::new(start.wrapping_add(t as u32));
            let in_window = t > last - 64;
            // precondition of confirm: consistent per-tick count, not more confirmations than messages
            if in_window || t > last {
                if let Some(&(c0, r0)) = seen.get(&t) { if c0 != count || r0 >= c0 { continue; } }
            }
            let got = real.confirm(tick, count);
            let want = if t > last {
                last = t;
                seen.retain(|&k, _| k > last - 64);
                let e = seen.entry(t).or_insert((count, 0)); e.1 += 1; e.0 == e.1
            } else if in_window {
                let e = seen.entry(t).or_insert((count, 0)); e.1 += 1; e.0 == e.1
            } else { false };
            if got != want { return Some(format!("step {step}: confirm(last{:+}, {count}) returned {got}, model {want}", OFFS[o])); }
            if real.last_tick() != RepliconTick::new(start.wrapping_add(last as u32)) { return Some(format!("step {step}: last_tick wrong")); }
            let mut mask = 0u64;
            for ago in 0..64i64 {
                if seen.get(&(last - ago)).is_some_and(|&(c0, r0)| c0 == r0) { mask |= 1 << ago; }
            }
            if real.mask() != mask { return Some(format!("step {step}: mask {:#x}, model {mask:#x}", real.mask())); }
            for d in -70..=3i64 {
                let p = RepliconTick::new(start.wrapping_add((last + d) as u32));
                let want = d <= 0 && (d <= -64 || seen.get(&(last + d)).is_some_and(|&(c0, r0)| c0 == r0));
                if real.contains(p) != want { return Some(format!("step {step}: contains(last{d:+}) = {}, model {want}", !want)); }
            }
            if ranges {
                let model = |d: i64| d <= 0 && (d <= -64 || seen.get(&(last + d)).is_some_and(|&(c0, r0)| c0 == r0));
                for a in -70..=3i64 {
                    for b in a..=3i64 {
                        let want = (a..=b).any(model);
                        let ta = RepliconTick::new(start.wrapping_add((last + a) as u32));
                        let tb = RepliconTick::new(start.wrapping_add((last + b) as u32));
                        if real.contains_any(ta, tb) != want {
                            return Some(format!("step {step}: contains_any(last{a:+}, last{b:+}) = {}, model {want}", !want));
                        }
                    }
                }
            }
        }
        None
    }

    fn show(ops: &[(usize, usize)]) -> String { ops.iter().map(|(o, c)| format!("{o}x{c}")).collect::<Vec<_>>().join(",") }

    #[test]
    fn verif_search_u03() {
        let starts = [5u32, u32::MAX - 30];
        if let Ok(fixed) = std::env::var("VERIF_OPS") {
            let ops: Vec<(usize, usize)> = fixed.split(',').filter(|t| !t.is_empty()).map(|t| { let (a, b) = t.split_once('x').unwrap(); (a.parse().unwrap(), b.parse().unwrap()) }).collect();
            let start: u32 = std::env::var("VERIF_POLICY").ok().and_then(|p| p.parse().ok()).unwrap_or(5);
            if let Some(why) = guarded(|| run(start, &ops)) {
                println!("VERIF-COUNTEREXAMPLE policy={start} ops={} :: {why}", show(&ops));
                panic!("contract violated on the real code: {why}");
            }
            return;
        }
        let depth: usize = std::env::var("VERIF_DEPTH").ok().and_then(|d| d.parse().ok()).unwrap_or(3);
        let n = (OFFS.len() + 1) * 2; // the extra index is `clear()`
        for len in 0..=depth {
            let mut idx = std::vec![0usize; len];
            loop {
                let seq: Vec<(usize, usize)> = idx.iter().map(|&k| (k / 2, 1 + k % 2)).collect();
                for start in starts {
                    if let Some(why) = guarded(|| run(start, &seq)) {
                        println!("VERIF-COUNTEREXAMPLE policy={start} ops={} :: {why}", show(&seq));
                        panic!("contract violated on the real code: {why}");
                    }
                }
                let mut k = 0;
                while k < len { idx[k] += 1; if idx[k] < n { break; } idx[k] = 0; k += 1; }
                if k == len { break; }
            }
        }
    }

    /// Bounded stand-in run on every check (unit u03n): `contains_any` against the plain-set model.
    #[test]
    fn verif_native_u03n() {
        let starts = [5u32, u32::MAX - 30];
        if let Ok(fixed) = std::env::var("VERIF_OPS") {
            let ops: Vec<(usize, usize)> = fixed.split(',').filter(|t| !t.is_empty()).map(|t| { let (a, b) = t.split_once('x').unwrap(); (a.parse().unwrap(), b.parse().unwrap()) }).collect();
            let start: u32 = std::env::var("VERIF_POLICY").ok().and_then(|p| p.parse().ok()).unwrap_or(5);
            if let Some(why) = guarded(|| run_with(start, &ops, true)) {
                println!("VERIF-COUNTEREXAMPLE policy={start} ops={} :: {why}", show(&ops));
                panic!("contract violated on the real code: {why}");
            }
            return;
        }
        let depth: usize = std::env::var("VERIF_DEPTH").ok().and_then(|d| d.parse().ok()).unwrap_or(2);
        let n = (OFFS.len() + 1) * 2; // the extra index is `clear()`
        let mut explored = 0usize;
        for len in 0..=depth {
            let mut idx = std::vec![0usize; len];
            loop {
                let seq: Vec<(usize, usize)> = idx.iter().map(|&k| (k / 2, 1 + k % 2)).collect();
                for start in starts {
                    explored += 1;
                    if let Some(why) = guarded(|| run_with(start, &seq, true)) {
                        println!("VERIF-COUNTEREXAMPLE policy={start} ops={} :: {why}", show(&seq));
                        panic!("contract violated on the real code: {why}");
                    }
                }
                let mut k = 0;
                while k < len { idx[k] += 1; if idx[k] < n { break; } idx[k] = 0; k += 1; }
                if k == len { break; }
            }
        }
        // second pass, one step deeper, without the (expensive) range queries: confirm / contains / mask / clear only
        for len in (depth + 1)..=(depth + 1) {
            let mut idx = std::vec![0usize; len];
            loop {
                let seq: Vec<(usize, usize)> = idx.iter().map(|&k| (k / 2, 1 + k % 2)).collect();
                for start in starts {
                    explored += 1;
                    if let Some(why) = guarded(|| run_with(start, &seq, false)) {
                        println!("VERIF-COUNTEREXAMPLE policy={start} ops={} :: {why}", show(&seq));
                        panic!("contract violated on the real code: {why}");
                    }
                }
                let mut k = 0;
                while k < len { idx[k] += 1; if idx[k] < n { break; } idx[k] = 0; k += 1; }
                if k == len { break; }
            }
        }
        println!("VERIF-EXPLORED sequences={explored}");
    }
}
