// Counterexample SEARCH for unit u06 (not the deciding step): injected as a #[cfg(test)] module next to the real
// ClientVisibility and run natively. Enumerates every operation sequence up to VERIF_DEPTH over two entities and both
// policies against an executable reference model written from property C08:
//   cur(e)  = latest visibility setting (default per policy)
//   has(e)  = the client holds e (it was visible at the last tick, or became visible and was sent since)
// Protocol of the caller (server::collect_despawns / send_replication), followed literally:
//   Despawn(e): if is_visible(e) { client is told to despawn e }; remove_despawned(e)
//   Tick:       every entity yielded by drain_lost() is despawned on the client; then update()
#[cfg(test)]
mod verif_search {
    extern crate std;
    use super::*;
    use std::{collections::BTreeSet, format, string::String, vec::Vec, println};

    /// A panic inside the real code is a failure of the contract too: report it with the operation sequence.
    fn guarded<F: FnOnce() -> Option<String>>(f: F) -> Option<String> {
        match std::panic::catch_unwind(std::panic::AssertUnwindSafe(f)) {
            Ok(r) => r,
            Err(p) => {
                let msg = p.downcast_ref::<&str>().map(|s| String::from(*s)).or_else(|| p.downcast_ref::<String>().cloned()).unwrap_or_default();
                Some(format!("the real code panicked: {msg}"))
            }
        }
    }

    #[derive(Clone, Copy, Debug, PartialEq)]
    enum Op { Set(usize, bool), Despawn(usize), Tick }

    fn ent(i: usize) -> Entity { Entity::from_raw(i as u32 + 1) }

    fn all_ops() -> Vec<Op> {
        let mut v = Vec::new();
        for i in 0..2 { v.push(Op::Set(i, true)); v.push(Op::Set(i, false)); }
        v.push(Op::Despawn(0));
        v.push(Op::Tick);
        v
    }

    /// Runs one sequence; returns the violated clause, if any.
    fn run(blacklist: bool, ops: &[Op]) -> Option<String> {
        let mut real = if blacklist { ClientVisibility::blacklist() } else { ClientVisibility::whitelist() };
        let default_vis = blacklist;
        let mut setting: [Option<bool>; 2] = [None, None];
        let mut has: [bool; 2] = [default_vis, default_vis];
        let mut dead: [bool; 2] = [false, false];
        let mut owed: BTreeSet<usize> = BTreeSet::new(); // despawned while held-but-hidden: the client must still be told
        let mut seq = ops.to_vec();
        seq.push(Op::Tick); // every history ends with a tick
        for (step, op) in seq.iter().enumerate() {
            match *op {
                Op::Set(i, v) => {
                    if dead[i] { continue; }
                    real.set_visibility(ent(i), v);
                    setting[i] = Some(v);
                }
                Op::Despawn(i) => {
                    if dead[i] { continue; }
                    let cur = setting[i].unwrap_or(default_vis);
                    let vis = real.is_visible(ent(i));
                    if vis != cur { return Some(format!("step {step}: is_visible({i}) = {vis}, latest setting is {cur}")); }
                    if vis { has[i] = false; } // the caller writes a despawn
                    real.remove_despawned(ent(i));
                    if has[i] { owed.insert(i); }
                    dead[i] = true;
                    setting[i] = None;
                }
                Op::Tick => {
                    let got: Vec<Entity> = real.drain_lost().collect();
                    let got_set: BTreeSet<usize> = (0..2).filter(|&i| got.contains(&ent(i))).collect();
                    if got.len() != got_set.len() { return Some(format!("step {step}: drain_lost yielded duplicates or unknown entities: {got:?}")); }
                    let mut expect: BTreeSet<usize> = owed.clone();
                    for i in 0..2 {
                        if !dead[i] && has[i] && !setting[i].unwrap_or(default_vis) { expect.insert(i); }
                    }
                    if got_set != expect {
                        return Some(format!("step {step}: drain_lost yielded {got_set:?}, but the client holds-and-must-lose {expect:?}"));
                    }
                    for i in expect { has[i] = false; }
                    owed.clear();
                    // entities that are (still) visible and not held are sent in full during the tick
                    for i in 0..2 {
                        if dead[i] { continue; }
                        let cur = setting[i].unwrap_or(default_vis);
                        let st = real.state(ent(i));
                        if cur && !has[i] && st == Visibility::Visible {
                            return Some(format!("step {step}: entity {i} is visible, not held by the client, but classified as plain Visible (no full send)"));
                        }
                        if cur { has[i] = true; }
                    }
                    real.update();
                }
            }
            // after every operation: the query reports the latest setting of every live entity
            for i in 0..2 {
                if dead[i] { continue; }
                let cur = setting[i].unwrap_or(default_vis);
                if real.is_visible(ent(i)) != cur {
                    return Some(format!("step {step} ({op:?}): is_visible({i}) = {}, latest setting is {cur}", !cur));
                }
                let st = real.state(ent(i));
                if (st == Visibility::Hidden) != !cur {
                    return Some(format!("step {step} ({op:?}): state({i}) hidden-ness disagrees with the latest setting {cur}"));
                }
                if st == Visibility::Visible && !has[i] {
                    return Some(format!("step {step} ({op:?}): entity {i} classified Visible but the client does not hold it"));
                }
            }
        }
        None
    }

    fn parse_ops(s: &str) -> Vec<Op> {
        s.split(',').filter(|t| !t.is_empty()).map(|t| {
            let t = t.trim();
            if t == "Tick" { Op::Tick }
            else if let Some(r) = t.strip_prefix("Despawn") { Op::Despawn(r.parse().unwrap()) }
            else if let Some(r) = t.strip_prefix("Show") { Op::Set(r.parse().unwrap(), true) }
            else if let Some(r) = t.strip_prefix("Hide") { Op::Set(r.parse().unwrap(), false) }
            else { panic!("bad op {t}") }
        }).collect()
    }

    fn show(ops: &[Op]) -> String {
        ops.iter().map(|o| match o {
            Op::Tick => String::from("Tick"),
            Op::Despawn(i) => format!("Despawn{i}"),
            Op::Set(i, true) => format!("Show{i}"),
            Op::Set(i, false) => format!("Hide{i}"),
        }).collect::<Vec<_>>().join(",")
    }

    #[test]
    fn verif_search_u06() {
        if let Ok(fixed) = std::env::var("VERIF_OPS") {
            let blacklist = std::env::var("VERIF_POLICY").map(|p| p == "blacklist").unwrap_or(true);
            let ops = parse_ops(&fixed);
            if let Some(why) = guarded(|| run(blacklist, &ops)) {
                println!("VERIF-COUNTEREXAMPLE policy={} ops={} :: {why}", if blacklist { "blacklist" } else { "whitelist" }, show(&ops));
                panic!("contract violated on the real code: {why}");
            }
            return;
        }
        let depth: usize = std::env::var("VERIF_DEPTH").ok().and_then(|d| d.parse().ok()).unwrap_or(5);
        // focus the search on the failed obligation: VERIF_EXCLUDE=Despawn leaves out lifecycle operations
        let exclude = std::env::var("VERIF_EXCLUDE").unwrap_or_default();
        let ops: Vec<Op> = all_ops().into_iter().filter(|o| !(exclude.contains("Despawn") && matches!(o, Op::Despawn(_)))).collect();
        for len in 0..=depth {
            let mut idx = std::vec![0usize; len];
            loop {
                let seq: Vec<Op> = idx.iter().map(|&k| ops[k]).collect();
                for blacklist in [true, false] {
                    if let Some(why) = guarded(|| run(blacklist, &seq)) {
                        println!("VERIF-COUNTEREXAMPLE policy={} ops={} :: {why}", if blacklist { "blacklist" } else { "whitelist" }, show(&seq));
                        panic!("contract violated on the real code: {why}");
                    }
                }
                // next index vector
                let mut k = 0;
                while k < len { idx[k] += 1; if idx[k] < ops.len() { break; } idx[k] = 0; k += 1; }
                if k == len { break; }
            }
        }
    }
}
