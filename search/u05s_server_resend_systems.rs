// BOUNDED native stand-in (unit u05s, runs on every check): the system-level half of C11 - change detection in
// `collect_changes`, `send_messages`, `receive_acks`, `Mutations::send`'s registration of what is in flight and the client
// acknowledging every mutate message it receives. These are Bevy systems (`Query`, `&World`, change ticks): outside both
// verifiers. A real server `App` and a real client `App` (the repository's `test_app` transport, delivery done by this
// harness so that it can lose mutate messages and hold acknowledgements back) start from two replicated entities the
// client holds and has acknowledged, and are driven through EVERY sequence up to VERIF_DEPTH over
//   Mutate(e)            new payload for the continuously replicated component of entity e
//   InsertExtra / RemoveExtra (entity 0)   a structural change (travels in the reliable update message)
//   TickDD | TickLD | TickDH   one server tick; mutate messages Delivered or Lost (unreliable channel); the client's
//                              acknowledgements Delivered or Held back until the next tick that delivers them (reliable)
//   TickMD               as TickDD, but the mutate messages overtake the update message of the same tick (they are buffered by
//                        the client until the update message arrives)
//   SpawnMapped          (once) a new server entity mapped to an entity the client spawned in advance (ClientEntityMap)
//   BogusAck             an acknowledgement naming a message index that is not in flight
//   ReplayAcks           the last delivered acknowledgement message once more (its indices are no longer in flight)
// The harness keeps its own record: `ver(e)`, and `acked(e)` = the newest version of e contained in an update message or in
// a mutate message whose acknowledgement has reached the server. At every tick:
//   R  ver(e) > acked(e) and no structural change of e  =>  a message on the mutations channel carries e's CURRENT payload
//      (re-sent every tick until acknowledged; lost / late / unknown acknowledgements never cause data to be skipped);
//   N  otherwise no message on the mutations channel carries any payload of e (not re-sent once acknowledged);
//   I  nothing changed and everything acknowledged => the server sends no replication message at all this tick;
//   C  closing: after two ticks with full delivery the client holds the server's values and a third tick is silent.
#[cfg(test)]
mod verif_search_a {
    extern crate std;
    use super::*;
    use crate::{
        shared::{backend::channels::{ClientChannel, ServerChannel}, server_entity_map::ServerEntityMap},
        test_app::{ServerTestAppExt, TestClientEntity},
    };
    use serde::{Deserialize, Serialize};
    use std::{format, println, string::String, vec::Vec};

    #[derive(Component, Serialize, Deserialize, Clone, Copy, PartialEq, Debug)]
    struct Secret([u8; 8]);
    #[derive(Component, Serialize, Deserialize, Clone, Copy, PartialEq, Debug)]
    struct Extra([u8; 8]);

    fn payload(slot: u8, kind: u8, ver: u16) -> [u8; 8] { [0xD1, 0x5E, slot, kind, ver as u8, (ver >> 8) as u8, 0xC0, 0xDE] }

    /// (slot, kind, version) of every payload in `bytes`.
    fn payloads_in(bytes: &[u8]) -> Vec<(u8, u8, u16)> {
        bytes.windows(8).filter(|w| w[0] == 0xD1 && w[1] == 0x5E && w[6] == 0xC0 && w[7] == 0xDE)
            .map(|w| (w[2], w[3], w[4] as u16 | (w[5] as u16) << 8)).collect()
    }

    fn guarded<F: FnOnce() -> Option<String>>(f: F) -> Option<String> {
        match std::panic::catch_unwind(std::panic::AssertUnwindSafe(f)) {
            Ok(r) => r,
            Err(p) => {
                let msg = p.downcast_ref::<&str>().map(|s| String::from(*s)).or_else(|| p.downcast_ref::<String>().cloned()).unwrap_or_default();
                Some(format!("the real code panicked: {msg}"))
            }
        }
    }

    #[derive(Clone, Copy, Debug, PartialEq)]
    enum Op { Mutate(u8), InsertExtra, RemoveExtra, TickDD, TickLD, TickDH, TickMD, SpawnMapped, BogusAck, ReplayAcks }

    fn new_app() -> App {
        let mut app = App::new();
        app.add_plugins((
            MinimalPlugins,
            RepliconPlugins.set(ServerPlugin { tick_policy: TickPolicy::EveryFrame, ..Default::default() }),
        ))
        .replicate::<Secret>()
        .replicate::<Extra>()
        .finish();
        app
    }

    struct Sim {
        server: App, client: App, ce: Entity,
        ent: Vec<Entity>, ver: [u16; 3], acked: [u16; 3], extra: Option<u16>, structural: [bool; 3], next_ver: u16,
        /// the client entity the third server entity is mapped to (after SpawnMapped)
        premapped: Option<Entity>,
        /// acknowledgement messages the client produced that have not reached the server, each with what it acknowledges
        held_acks: Vec<(Vec<u8>, Vec<(usize, u16)>)>,
        last_delivered_ack: Option<Vec<u8>>,
    }

    impl Sim {
        fn new() -> Result<Self, String> {
            let mut server = new_app();
            let mut client = new_app();
            server.connect_client(&mut client);
            let ce = **client.world().resource::<TestClientEntity>();
            let e0 = server.world_mut().spawn((Replicated, Secret(payload(0, 0, 1)))).id();
            let e1 = server.world_mut().spawn((Replicated, Secret(payload(1, 0, 2)))).id();
            let mut s = Self { server, client, ce, ent: std::vec![e0, e1], ver: [1, 2, 0], acked: [0, 0, 0], extra: None, structural: [true, true, false], next_ver: 3,
                               premapped: None, held_acks: Vec::new(), last_delivered_ack: None };
            for i in 0..2 { if let Some(why) = s.tick(true, true, false, 0) { return Err(format!("[start state, tick {i}] {why}")); } }
            Ok(s)
        }

        fn apply(&mut self, op: Op, step: usize) -> Option<String> {
            match op {
                Op::Mutate(e) => {
                    let e = e as usize;
                    self.ver[e] = self.next_ver; self.next_ver += 1;
                    self.server.world_mut().get_mut::<Secret>(self.ent[e]).unwrap().0 = payload(e as u8, 0, self.ver[e]);
                }
                Op::InsertExtra => {
                    let v = self.next_ver; self.next_ver += 1;
                    self.server.world_mut().entity_mut(self.ent[0]).insert(Extra(payload(0, 1, v)));
                    self.extra = Some(v); self.structural[0] = true;
                }
                Op::RemoveExtra => {
                    self.server.world_mut().entity_mut(self.ent[0]).remove::<Extra>();
                    self.extra = None; self.structural[0] = true;
                }
                Op::TickDD => return self.tick(true, true, false, step),
                Op::TickLD => return self.tick(false, true, false, step),
                Op::TickDH => return self.tick(true, false, false, step),
                Op::TickMD => return self.tick(true, true, true, step),
                Op::SpawnMapped => {
                    let v = self.next_ver; self.next_ver += 1;
                    let e2 = self.server.world_mut().spawn((Replicated, Secret(payload(2, 0, v)))).id();
                    let c2 = self.client.world_mut().spawn_empty().id();
                    self.server.world_mut().get_mut::<crate::server::client_entity_map::ClientEntityMap>(self.ce).unwrap().insert(e2, c2);
                    self.ent.push(e2); self.ver[2] = v; self.structural[2] = true; self.premapped = Some(c2);
                }
                Op::BogusAck => {
                    // fixint little-endian u16 index far away from anything in flight
                    self.server.world_mut().resource_mut::<RepliconServer>().insert_received(self.ce, ClientChannel::MutationAcks, std::vec![0x40u8, 0x9c]);
                }
                Op::ReplayAcks => {
                    if let Some(bytes) = self.last_delivered_ack.clone() {
                        self.server.world_mut().resource_mut::<RepliconServer>().insert_received(self.ce, ClientChannel::MutationAcks, bytes);
                    }
                }
            }
            None
        }

        /// One server tick. `deliver_mut`: mutate messages reach the client; `deliver_acks`: pending acknowledgements reach the server.
        fn tick(&mut self, deliver_mut: bool, deliver_acks: bool, mut_first: bool, step: usize) -> Option<String> {
            self.server.update();
            let sent: Vec<(usize, Vec<u8>)> = self.server.world_mut().resource_mut::<RepliconServer>().drain_sent()
                .filter(|(c, ..)| *c == self.ce).map(|(_, ch, m)| (ch, m.to_vec())).collect();
            let mutations_channel: usize = ServerChannel::Mutations.into();
            let updates_channel: usize = ServerChannel::Updates.into();
            // what the model expects of this tick
            let structural = self.structural;
            let mut any_expected = false;
            for e in 0..self.ent.len() {
                let in_mut: Vec<u16> = sent.iter().filter(|(ch, _)| *ch == mutations_channel)
                    .flat_map(|(_, m)| payloads_in(m)).filter(|p| p.0 == e as u8 && p.1 == 0).map(|p| p.2).collect();
                if structural[e] {
                    any_expected = true;
                    // the entity travels in the update message with everything that changed; that message is reliable
                    if !sent.iter().any(|(ch, _)| *ch == updates_channel) {
                        return Some(format!("step {step}: entity {e} changed structurally but no update message was sent"));
                    }
                    if !in_mut.is_empty() {
                        return Some(format!("step {step}: entity {e} changed structurally in this tick, yet a mutate message carries its data (versions {in_mut:?}) - entity updates must stay atomic"));
                    }
                    self.acked[e] = self.ver[e];
                } else if self.ver[e] > self.acked[e] {
                    any_expected = true;
                    if !in_mut.contains(&self.ver[e]) {
                        return Some(format!("step {step}: entity {e} has version {} but only version {} was acknowledged (or sent reliably), and this tick's mutate messages carry versions {in_mut:?} of it - an unacknowledged mutation must be re-sent every tick",
                                            self.ver[e], self.acked[e]));
                    }
                } else if !in_mut.is_empty() {
                    return Some(format!("step {step}: entity {e} version {} is acknowledged, yet it is re-sent (versions {in_mut:?})", self.ver[e]));
                }
            }
            self.structural = [false, false, false];
            if !any_expected && !sent.is_empty() {
                return Some(format!("step {step}: nothing changed and everything is acknowledged, yet the server sent {} message(s) (channels {:?}, sizes {:?})",
                                    sent.len(), sent.iter().map(|m| m.0).collect::<Vec<_>>(), sent.iter().map(|m| m.1.len()).collect::<Vec<_>>()));
            }
            // delivery
            let mut received_mut: Vec<Vec<(usize, u16)>> = Vec::new();
            let mut acks: Vec<(usize, Vec<u8>)> = Vec::new();
            // mutate messages first when they overtake the update message, last otherwise (one client frame each then)
            for pass in 0..2 {
                let mutations_now = (pass == 0) == mut_first;
                let mut any = false;
                for (ch, m) in &sent {
                    if (*ch == mutations_channel) != mutations_now { continue; }
                    if *ch == mutations_channel {
                        if !deliver_mut { continue; }
                        received_mut.push(payloads_in(m).into_iter().filter(|p| p.1 == 0).map(|p| (p.0 as usize, p.2)).collect());
                    }
                    any = true;
                    self.client.world_mut().resource_mut::<RepliconClient>().insert_received(*ch, m.clone());
                }
                if mut_first || pass == 1 {
                    if any || pass == 1 { self.client.update(); }
                    acks.extend(self.client.world_mut().resource_mut::<RepliconClient>().drain_sent().map(|(ch, m)| (ch, m.to_vec())));
                }
            }
            let ack_channel: usize = ClientChannel::MutationAcks.into();
            let ack_bytes: Vec<u8> = acks.iter().filter(|(ch, _)| *ch == ack_channel).flat_map(|(_, m)| m.clone()).collect();
            if !received_mut.is_empty() && ack_bytes.len() != 2 * received_mut.len() {
                return Some(format!("step {step}: the client received {} mutate message(s) but acknowledged {} (ack bytes {ack_bytes:?}) - every received mutate message must be acknowledged exactly once",
                                    received_mut.len(), ack_bytes.len() / 2));
            }
            if received_mut.is_empty() && !ack_bytes.is_empty() {
                return Some(format!("step {step}: the client acknowledged ({ack_bytes:?}) without having received a mutate message"));
            }
            for (ch, m) in acks {
                if ch == ack_channel { self.held_acks.push((m, received_mut.iter().flatten().copied().collect())); }
                else { self.server.world_mut().resource_mut::<RepliconServer>().insert_received(self.ce, ch, m); }
            }
            if deliver_acks {
                for (bytes, what) in core::mem::take(&mut self.held_acks) {
                    for (e, v) in what { if v > self.acked[e] { self.acked[e] = v; } }
                    self.last_delivered_ack = Some(bytes.clone());
                    self.server.world_mut().resource_mut::<RepliconServer>().insert_received(self.ce, ack_channel, bytes);
                }
            }
            None
        }

        fn converged(&mut self) -> Option<String> {
            for e in 0..self.ent.len() {
                let Some(&local) = self.client.world().resource::<ServerEntityMap>().to_client().get(&self.ent[e]) else {
                    return Some(format!("closing: the client has no entity for server entity {e}"));
                };
                let want = Secret(payload(e as u8, 0, self.ver[e]));
                let got = self.client.world().get::<Secret>(local).copied();
                if got != Some(want) { return Some(format!("closing: after two fully delivered ticks the client has {got:?} for entity {e}, the server has {want:?} - data was skipped")); }
                if e == 2 && Some(local) != self.premapped {
                    return Some(format!("closing: the mapped server entity landed on client entity {local}, not on the pre-spawned {:?}", self.premapped));
                }
                if e == 0 {
                    let want = self.extra.map(|v| Extra(payload(0, 1, v)));
                    let got = self.client.world().get::<Extra>(local).copied();
                    if got != want { return Some(format!("closing: client Extra = {got:?}, server {want:?}")); }
                }
            }
            None
        }
    }

    fn run(ops: &[Op]) -> Option<String> {
        let mut s = match Sim::new() { Ok(s) => s, Err(why) => return Some(why) };
        for (step, op) in ops.iter().enumerate() {
            if let Some(why) = s.apply(*op, step) { return Some(why); }
        }
        for extra in 0..2 { if let Some(why) = s.tick(true, true, false, ops.len() + extra) { return Some(format!("[closing tick {extra}] {why}")); } }
        if let Some(why) = s.converged() { return Some(why); }
        if let Some(why) = s.tick(true, true, false, ops.len() + 2) { return Some(format!("[closing tick 2: must be silent] {why}")); }
        None
    }

    fn applicable(ops: &[Op]) -> bool {
        let mut extra = false;
        if ops.iter().filter(|o| **o == Op::SpawnMapped).count() > 1 { return false; }
        for op in ops {
            match op { Op::InsertExtra => { if extra { return false; } extra = true; } Op::RemoveExtra => { if !extra { return false; } extra = false; } _ => {} }
        }
        true
    }

    fn show(ops: &[Op]) -> String { ops.iter().map(|o| format!("{o:?}").replace('(', "-").replace(')', "")).collect::<Vec<_>>().join(",") }
    fn parse(sv: &str) -> Vec<Op> {
        sv.split(',').filter(|t| !t.is_empty()).map(|t| match t {
            "Mutate-0" => Op::Mutate(0), "Mutate-1" => Op::Mutate(1), "InsertExtra" => Op::InsertExtra, "RemoveExtra" => Op::RemoveExtra,
            "TickLD" => Op::TickLD, "TickDH" => Op::TickDH, "TickMD" => Op::TickMD, "SpawnMapped" => Op::SpawnMapped, "BogusAck" => Op::BogusAck, "ReplayAcks" => Op::ReplayAcks, _ => Op::TickDD,
        }).collect()
    }

    #[test]
    fn verif_native_u05s() {
        if let Ok(fixed) = std::env::var("VERIF_OPS") {
            let ops = parse(&fixed);
            if let Some(why) = guarded(|| run(&ops)) {
                println!("VERIF-COUNTEREXAMPLE policy=- ops={} :: {why}", show(&ops));
                panic!("property violated on the real code: {why}");
            }
            return;
        }
        let depth: usize = std::env::var("VERIF_DEPTH").ok().and_then(|d| d.parse().ok()).unwrap_or(4);
        let ops = [Op::Mutate(0), Op::Mutate(1), Op::InsertExtra, Op::RemoveExtra, Op::TickDD, Op::TickLD, Op::TickDH, Op::TickMD, Op::SpawnMapped, Op::BogusAck, Op::ReplayAcks];
        let mut jobs: Vec<Vec<Op>> = Vec::new();
        for len in 0..=depth {
            let mut idx = std::vec![0usize; len];
            loop {
                let seq: Vec<Op> = idx.iter().map(|&k| ops[k]).collect();
                // a trailing fully delivered tick is the same as the closing ticks of the shorter sequence
                if seq.last() != Some(&Op::TickDD) && applicable(&seq) { jobs.push(seq); }
                let mut k = 0;
                while k < len { idx[k] += 1; if idx[k] < ops.len() { break; } idx[k] = 0; k += 1; }
                if k == len { break; }
            }
        }
        let threads: usize = std::env::var("VERIF_THREADS").ok().and_then(|d| d.parse().ok())
            .unwrap_or_else(|| std::thread::available_parallelism().map(|n| n.get()).unwrap_or(4));
        let next = std::sync::atomic::AtomicUsize::new(0);
        let first_bad: std::sync::Mutex<Option<(usize, String)>> = std::sync::Mutex::new(None);
        std::thread::scope(|sc| {
            for _ in 0..threads {
                sc.spawn(|| loop {
                    let i = next.fetch_add(1, std::sync::atomic::Ordering::SeqCst);
                    if i >= jobs.len() { break; }
                    if first_bad.lock().unwrap().as_ref().is_some_and(|(j, _)| *j < i) { break; }
                    if let Some(why) = guarded(|| run(&jobs[i])) {
                        let mut fb = first_bad.lock().unwrap();
                        if fb.as_ref().is_none_or(|(j, _)| i < *j) { *fb = Some((i, why)); }
                    }
                });
            }
        });
        if let Some((i, why)) = first_bad.into_inner().unwrap() {
            println!("VERIF-COUNTEREXAMPLE policy=- ops={} :: {why}", show(&jobs[i]));
            panic!("property violated on the real code: {why}");
        }
        println!("VERIF-EXPLORED sequences={}", jobs.len());
    }
}
