// BOUNDED native stand-in (unit u05p, runs on every check): C11 for a component with a PERIODIC send rate next to an
// every-tick component on the same entity (`collect_changes`: the acknowledged tick is kept per ENTITY, the send-rate gate is
// per COMPONENT). Real server and client `App`s, every message delivered and acknowledged in the tick it is sent. Every
// sequence up to VERIF_DEPTH over MutateA (every-tick component), MutateP (periodic component, period 3), InsertExtra /
// RemoveExtra (structural change of the same entity) and Tick. Checked:
//   P1 on a period tick a changed-and-not-yet-sent periodic value is carried by a message of that tick;
//   P2 closing: after 2 * period + 1 further ticks the client holds the server's value of both components.
// A failure is labelled with the signature `periodic-skip-after-entity-ack` exactly when, while the periodic value was
// waiting for its period tick, the entity was sent (and so acknowledged) through another component or a structural change;
// failures without that history are reported first.
#[cfg(test)]
mod verif_search_q {
    extern crate std;
    use super::*;
    use crate::{
        shared::server_entity_map::ServerEntityMap,
        test_app::{ServerTestAppExt, TestClientEntity},
    };
    use serde::{Deserialize, Serialize};
    use std::{format, println, string::String, vec::Vec};

    const PERIOD: u32 = 3;
    const SIGNATURE: &str = "periodic-skip-after-entity-ack";

    #[derive(Component, Serialize, Deserialize, Clone, Copy, PartialEq, Debug)]
    struct Fast([u8; 8]);
    #[derive(Component, Serialize, Deserialize, Clone, Copy, PartialEq, Debug)]
    struct Slow([u8; 8]);
    #[derive(Component, Serialize, Deserialize, Clone, Copy, PartialEq, Debug)]
    struct Extra([u8; 8]);

    fn payload(kind: u8, ver: u16) -> [u8; 8] { [0xD1, 0x5E, 0, kind, ver as u8, (ver >> 8) as u8, 0xC0, 0xDE] }
    fn payloads_in(bytes: &[u8]) -> Vec<(u8, u16)> {
        bytes.windows(8).filter(|w| w[0] == 0xD1 && w[1] == 0x5E && w[6] == 0xC0 && w[7] == 0xDE)
            .map(|w| (w[3], w[4] as u16 | (w[5] as u16) << 8)).collect()
    }

    fn guarded<F: FnOnce() -> Option<String>>(f: F) -> Option<String> {
        match std::panic::catch_unwind(std::panic::AssertUnwindSafe(f)) {
            Ok(r) => r,
            Err(p) => {
                let msg = p.downcast_ref::<&str>().map(|s| String::from(*s)).or_else(|| p.downcast_ref::<String>().cloned()).unwrap_or_default();
                Some(format!("the real code panicked: {msg}"))
            }
        }
    }

    #[derive(Clone, Copy, Debug, PartialEq)]
    enum Op { MutateA, MutateP, InsertExtra, RemoveExtra, Tick }

    fn new_app() -> App {
        let mut app = App::new();
        app.add_plugins((
            MinimalPlugins,
            RepliconPlugins.set(ServerPlugin { tick_policy: TickPolicy::EveryFrame, ..Default::default() }),
        ))
        .replicate::<Fast>()
        .replicate_periodic::<Slow>(PERIOD)
        .replicate::<Extra>()
        .finish();
        app
    }

    struct Sim { server: App, client: App, ce: Entity, e: Entity, a: u16, p: u16, p_sent: u16, extra: Option<u16>, next: u16, poisoned: bool }

    impl Sim {
        fn new() -> Self {
            let mut server = new_app();
            let mut client = new_app();
            server.connect_client(&mut client);
            let ce = **client.world().resource::<TestClientEntity>();
            let e = server.world_mut().spawn((Replicated, Fast(payload(0, 1)), Slow(payload(2, 2)))).id();
            let mut s = Self { server, client, ce, e, a: 1, p: 2, p_sent: 2, extra: None, next: 3, poisoned: false };
            for _ in 0..2 { s.tick(0); }
            s
        }

        fn apply(&mut self, op: Op, step: usize) -> Option<String> {
            match op {
                Op::MutateA => { self.a = self.next; self.next += 1; self.server.world_mut().get_mut::<Fast>(self.e).unwrap().0 = payload(0, self.a); }
                Op::MutateP => { self.poisoned = false; self.p = self.next; self.next += 1; self.server.world_mut().get_mut::<Slow>(self.e).unwrap().0 = payload(2, self.p); }
                Op::InsertExtra => { let v = self.next; self.next += 1; self.server.world_mut().entity_mut(self.e).insert(Extra(payload(1, v))); self.extra = Some(v); }
                Op::RemoveExtra => { self.server.world_mut().entity_mut(self.e).remove::<Extra>(); self.extra = None; }
                Op::Tick => return self.tick(step),
            }
            None
        }

        /// One fully delivered and acknowledged tick.
        fn tick(&mut self, step: usize) -> Option<String> {
            self.server.update();
            let tick = self.server.world().resource::<ServerTick>().get();
            let sent: Vec<(usize, Vec<u8>)> = self.server.world_mut().resource_mut::<RepliconServer>().drain_sent()
                .filter(|(c, ..)| *c == self.ce).map(|(_, ch, m)| (ch, m.to_vec())).collect();
            let carried: Vec<(u8, u16)> = sent.iter().flat_map(|(_, m)| payloads_in(m)).collect();
            let mut why = None;
            if carried.contains(&(2, self.p)) {
                self.p_sent = self.p;
                self.poisoned = false;
            } else if self.p > self.p_sent {
                if tick % PERIOD == 0 {
                    why = Some(format!("step {step}: server tick {tick} is a period tick and the periodic component has the unsent version {} (last sent {}), but no message of this tick carries it{}",
                                       self.p, self.p_sent, if self.poisoned { format!(" [signature {SIGNATURE}]") } else { String::new() }));
                } else if !sent.is_empty() {
                    // the entity travels (every-tick component or structural change) while the periodic value waits: the
                    // acknowledgement of this message moves the entity's acknowledged tick past the periodic change
                    self.poisoned = true;
                }
            }
            for (ch, m) in sent { self.client.world_mut().resource_mut::<RepliconClient>().insert_received(ch, m); }
            self.client.update();
            self.server.exchange_with_client(&mut self.client);
            why
        }

        fn converged(&self) -> Option<String> {
            let Some(&local) = self.client.world().resource::<ServerEntityMap>().to_client().get(&self.e) else { return Some(String::from("closing: the client has no entity")); };
            let got_a = self.client.world().get::<Fast>(local).copied();
            if got_a != Some(Fast(payload(0, self.a))) { return Some(format!("closing: every-tick component on the client {got_a:?}, server version {}", self.a)); }
            let got_p = self.client.world().get::<Slow>(local).copied();
            if got_p != Some(Slow(payload(2, self.p))) {
                return Some(format!("closing: after {} fully delivered ticks the client's periodic component is {got_p:?}, the server has version {} - the mutation was skipped{}",
                                    2 * PERIOD + 1, self.p, if self.poisoned { format!(" [signature {SIGNATURE}]") } else { String::new() }));
            }
            None
        }
    }

    fn run(ops: &[Op]) -> Option<String> {
        let mut s = Sim::new();
        for (step, op) in ops.iter().enumerate() { if let Some(why) = s.apply(*op, step) { return Some(why); } }
        for k in 0..(2 * PERIOD + 1) as usize { if let Some(why) = s.tick(ops.len() + k) { return Some(format!("[closing tick {k}] {why}")); } }
        s.converged()
    }

    fn applicable(ops: &[Op]) -> bool {
        let mut extra = false;
        for op in ops { match op { Op::InsertExtra => { if extra { return false; } extra = true; } Op::RemoveExtra => { if !extra { return false; } extra = false; } _ => {} } }
        true
    }
    fn show(ops: &[Op]) -> String { ops.iter().map(|o| format!("{o:?}")).collect::<Vec<_>>().join(",") }
    fn parse(sv: &str) -> Vec<Op> {
        sv.split(',').filter(|t| !t.is_empty()).map(|t| match t { "MutateA" => Op::MutateA, "MutateP" => Op::MutateP, "InsertExtra" => Op::InsertExtra, "RemoveExtra" => Op::RemoveExtra, _ => Op::Tick }).collect()
    }

    #[test]
    fn verif_native_u05p() {
        if let Ok(fixed) = std::env::var("VERIF_OPS") {
            let ops = parse(&fixed);
            if let Some(why) = guarded(|| run(&ops)) {
                println!("VERIF-COUNTEREXAMPLE policy=- ops={} :: {why}", show(&ops));
                panic!("property violated on the real code: {why}");
            }
            return;
        }
        let depth: usize = std::env::var("VERIF_DEPTH").ok().and_then(|d| d.parse().ok()).unwrap_or(5);
        let ops = [Op::MutateA, Op::MutateP, Op::InsertExtra, Op::RemoveExtra, Op::Tick];
        let mut jobs: Vec<Vec<Op>> = Vec::new();
        for len in 0..=depth {
            let mut idx = std::vec![0usize; len];
            loop {
                let seq: Vec<Op> = idx.iter().map(|&k| ops[k]).collect();
                if applicable(&seq) { jobs.push(seq); }
                let mut k = 0;
                while k < len { idx[k] += 1; if idx[k] < ops.len() { break; } idx[k] = 0; k += 1; }
                if k == len { break; }
            }
        }
        let threads: usize = std::thread::available_parallelism().map(|n| n.get()).unwrap_or(4);
        let next = std::sync::atomic::AtomicUsize::new(0);
        // first failure WITHOUT the signature (a new violation) and first failure WITH it, in enumeration order
        let first_new: std::sync::Mutex<Option<(usize, String)>> = std::sync::Mutex::new(None);
        let first_sig: std::sync::Mutex<Option<(usize, String)>> = std::sync::Mutex::new(None);
        std::thread::scope(|sc| {
            for _ in 0..threads {
                sc.spawn(|| loop {
                    let i = next.fetch_add(1, std::sync::atomic::Ordering::SeqCst);
                    if i >= jobs.len() { break; }
                    if let Some(why) = guarded(|| run(&jobs[i])) {
                        let slot = if why.contains(SIGNATURE) { &first_sig } else { &first_new };
                        let mut fb = slot.lock().unwrap();
                        if fb.as_ref().is_none_or(|(j, _)| i < *j) { *fb = Some((i, why)); }
                    }
                });
            }
        });
        let bad = first_new.into_inner().unwrap().or(first_sig.into_inner().unwrap());
        if let Some((i, why)) = bad {
            println!("VERIF-COUNTEREXAMPLE policy=- ops={} :: {why}", show(&jobs[i]));
            panic!("property violated on the real code: {why}");
        }
        println!("VERIF-EXPLORED sequences={}", jobs.len());
    }
}
