// BOUNDED native stand-in (unit u07n, runs on every check): the bookkeeping of `Mutations` that neither verifier can
// process (closures returning `&mut`, iterator chains). Every operation sequence up to VERIF_DEPTH against a plain model:
// entities recorded for a relation graph stay together in that graph's chunk, in order; standalone entities form
// single-entity chunks; `pop` removes exactly the last recorded entity; `is_empty` <=> nothing recorded;
// `clear` forgets everything and keeps the number of graphs; `resize_related` keeps the surviving graphs' content.
#[cfg(test)]
mod verif_search {
    extern crate std;
    use super::*;
    use std::{format, string::String, vec::Vec, println};

    fn guarded<F: FnOnce() -> Option<String>>(f: F) -> Option<String> {
        match std::panic::catch_unwind(std::panic::AssertUnwindSafe(f)) {
            Ok(r) => r,
            Err(p) => {
                let msg = p.downcast_ref::<&str>().map(|s| String::from(*s)).or_else(|| p.downcast_ref::<String>().cloned()).unwrap_or_default();
                Some(format!("the real code panicked: {msg}"))
            }
        }
    }

    #[derive(Clone, Copy, Debug, PartialEq)]
    enum Op { Start, Add(Option<usize>), Component, Pop, Clear, Resize(usize) }

    fn all_ops() -> Vec<Op> {
        std::vec![Op::Start, Op::Add(None), Op::Add(Some(0)), Op::Add(Some(1)), Op::Component, Op::Pop, Op::Clear, Op::Resize(0), Op::Resize(1), Op::Resize(2)]
    }

    fn run(ops: &[Op]) -> Option<String> {
        let mut real = Mutations::default();
        let mut related: Vec<Vec<(u32, usize)>> = Vec::new(); // (entity number, recorded component bytes)
        let mut standalone: Vec<(u32, usize)> = Vec::new();
        let mut loc: Option<Option<usize>> = None; // Some(None) = standalone, Some(Some(i)) = graph i
        let mut next: u32 = 0;
        let mut pos: usize = 0;
        for (step, op) in ops.iter().enumerate() {
            match *op {
                Op::Start => { real.start_entity(); loc = None; }
                Op::Add(g) => {
                    if let Some(i) = g { if i >= related.len() { continue; } } // precondition: the graph exists
                    real.add_entity(Entity::from_raw(next), g, pos..pos + 1);
                    pos += 1;
                    match g { Some(i) => related[i].push((next, 0)), None => standalone.push((next, 0)) }
                    loc = Some(g);
                    next += 1;
                }
                Op::Component => {
                    let Some(l) = loc else { continue; }; // precondition: an entity was added since start_entity
                    let target = match l { Some(i) => related[i].last_mut(), None => standalone.last_mut() };
                    let Some(t) = target else { continue; };
                    real.add_component(pos..pos + 2);
                    pos += 2;
                    t.1 += 2;
                }
                Op::Pop => {
                    real.pop();
                    if let Some(l) = loc.take() { match l { Some(i) => { related[i].pop(); } None => { standalone.pop(); } } }
                }
                Op::Clear => { real.clear(); for g in related.iter_mut() { g.clear(); } standalone.clear(); loc = None; real.start_entity(); }
                Op::Resize(n) => { real.resize_related(n); related.resize_with(n, Vec::new); if let Some(Some(i)) = loc { if i >= n { loc = None; real.start_entity(); } } }
            }
            let added = real.entity_added();
            if added != loc.is_some() { return Some(format!("step {step} ({op:?}): entity_added() = {added}, model {}", loc.is_some())); }
            let empty = standalone.is_empty() && related.iter().all(Vec::is_empty);
            if real.is_empty() != empty { return Some(format!("step {step} ({op:?}): is_empty() = {}, model {empty}", real.is_empty())); }
            // chunk structure: graphs first (whole), then standalone singletons
            let chunks = EntityChunks::new(&real.related, &real.standalone);
            let mut got: Vec<Vec<(u32, usize)>> = Vec::new();
            for chunk in chunks.iter() {
                got.push(chunk.iter().map(|m| (m.entity.index(), m.ranges.components.iter().map(|r| r.len()).sum())).collect());
            }
            let mut want: Vec<Vec<(u32, usize)>> = related.clone();
            for s in &standalone { want.push(std::vec![*s]); }
            if got != want { return Some(format!("step {step} ({op:?}): chunks {got:?}, model {want:?}")); }
        }
        None
    }

    fn show(ops: &[Op]) -> String { ops.iter().map(|o| format!("{o:?}").replace("Some(", "g").replace("None", "s").replace(['(', ')'], "")).collect::<Vec<_>>().join(",") }
    fn parse(sv: &str) -> Vec<Op> {
        sv.split(',').filter(|t| !t.is_empty()).map(|t| match t {
            "Start" => Op::Start, "Adds" => Op::Add(None), "Addg0" => Op::Add(Some(0)), "Addg1" => Op::Add(Some(1)), "Component" => Op::Component,
            "Pop" => Op::Pop, "Clear" => Op::Clear, "Resize0" => Op::Resize(0), "Resize1" => Op::Resize(1), _ => Op::Resize(2),
        }).collect()
    }

    #[test]
    fn verif_native_u07n() {
        if let Ok(fixed) = std::env::var("VERIF_OPS") {
            let ops = parse(&fixed);
            if let Some(why) = guarded(|| run(&ops)) {
                println!("VERIF-COUNTEREXAMPLE policy=- ops={} :: {why}", show(&ops));
                panic!("contract violated on the real code: {why}");
            }
            return;
        }
        let depth: usize = std::env::var("VERIF_DEPTH").ok().and_then(|d| d.parse().ok()).unwrap_or(5);
        let ops = all_ops();
        let mut explored = 0usize;
        for len in 0..=depth {
            let mut idx = std::vec![0usize; len];
            loop {
                let seq: Vec<Op> = idx.iter().map(|&k| ops[k]).collect();
                explored += 1;
                if let Some(why) = guarded(|| run(&seq)) {
                    println!("VERIF-COUNTEREXAMPLE policy=- ops={} :: {why}", show(&seq));
                    panic!("contract violated on the real code: {why}");
                }
                let mut k = 0;
                while k < len { idx[k] += 1; if idx[k] < ops.len() { break; } idx[k] = 0; k += 1; }
                if k == len { break; }
            }
        }
        println!("VERIF-EXPLORED sequences={explored}");
    }
}
