// BOUNDED native stand-in (unit u10s, runs on every check): the server's RECEIVE systems (`receive_acks`,
// `ClientEvent::receive`, client trigger reception, `check_protocol`) - Bevy systems over `Query`/`World`/type-erased
// pointers, outside both verifiers. A real server `App` (default authorization method: protocol check) with one AUTHORIZED
// client (a real client `App`, handshake done) and one connected client that never authorizes receives EVERY byte string
// of length 0..=2, and for VERIF_DEPTH > 2 every string up to that length over 16 boundary bytes of the variable-length
// encodings, from each of the two clients on each registered client-to-server channel
// (mutation acks, the protocol-hash trigger, a plain event, an event and a trigger that carry entities). Checked:
//   P  `App::update` never panics, whatever was received;
//   F  valid events / triggers sent IN THE SAME FRAME on the same channel by another authorized client (one queued before,
//      one after the garbage) are all delivered to the server's game logic (a malformed message is discarded - nothing else);
//   S  afterwards the server still serves: an entity spawned after the garbage reaches the authorized client intact.
// Messages are delivered 256 per frame; when a frame panics each of its messages is re-run alone in a fresh server to name
// the failing input.
#[cfg(test)]
mod verif_search_r {
    extern crate std;
    use super::*;
    use crate::{
        shared::server_entity_map::ServerEntityMap,
        test_app::{ServerTestAppExt, TestClientEntity},
    };
    use bevy::ecs::entity::MapEntities;
    use serde::{Deserialize, Serialize};
    use std::{format, println, string::String, vec::Vec};

    #[derive(Component, Serialize, Deserialize, Clone, Copy, PartialEq, Debug)]
    struct Payload(u32);
    #[derive(Event, Serialize, Deserialize, Clone)]
    struct PlainEvent(u16);
    #[derive(Event, Serialize, Deserialize, Clone)]
    struct EntityEvent(Entity);
    impl MapEntities for EntityEvent {
        fn map_entities<M: EntityMapper>(&mut self, mapper: &mut M) { self.0 = mapper.get_mapped(self.0); }
    }
    #[derive(Event, Serialize, Deserialize, Clone)]
    struct PlainTrigger(u8);

    /// What the server's game logic saw from the bystander client (events and triggers with the marker values).
    #[derive(Resource, Default)]
    struct Seen { bystander: Option<Entity>, plain: usize, entity: usize, trigger: usize }
    const MARK_PLAIN: u16 = 0xBEEF;
    const MARK_TRIGGER: u8 = 0xA7;

    fn count_events(mut seen: ResMut<Seen>, mut plain: EventReader<FromClient<PlainEvent>>, mut entity: EventReader<FromClient<EntityEvent>>) {
        for e in plain.read() { if Some(e.client) == seen.bystander && e.event.0 == MARK_PLAIN { seen.plain += 1; } }
        for e in entity.read() { if Some(e.client) == seen.bystander { seen.entity += 1; } }
    }
    fn count_triggers(t: Trigger<FromClient<PlainTrigger>>, mut seen: ResMut<Seen>) {
        if Some(t.client) == seen.bystander && t.event.0 == MARK_TRIGGER { seen.trigger += 1; }
    }

    fn quiet<R>(f: impl FnOnce() -> R) -> Result<R, String> {
        std::panic::catch_unwind(std::panic::AssertUnwindSafe(f)).map_err(|p| {
            p.downcast_ref::<&str>().map(|s| String::from(*s)).or_else(|| p.downcast_ref::<String>().cloned()).unwrap_or_default()
        })
    }

    fn new_app() -> App {
        let mut app = App::new();
        app.add_plugins((
            MinimalPlugins,
            RepliconPlugins.set(ServerPlugin { tick_policy: TickPolicy::EveryFrame, ..Default::default() }),
        ))
        .replicate::<Payload>()
        .add_client_event::<PlainEvent>(Channel::Ordered)
        .add_mapped_client_event::<EntityEvent>(Channel::Unordered)
        .add_client_trigger::<PlainTrigger>(Channel::Ordered)
        .init_resource::<Seen>()
        .add_systems(Update, count_events)
        .add_observer(count_triggers)
        .finish();
        app
    }

    struct Setup {
        server: App, client: App, authorized: Entity, unauthorized: Entity, channels: usize,
        /// per client channel: a VALID message of the bystander (produced by a real client app through the public API)
        valid: Vec<Option<Vec<u8>>>,
        bystander: Entity,
    }

    fn setup() -> Setup {
        let mut server = new_app();
        let mut client = new_app();
        server.connect_client(&mut client);
        let authorized = **client.world().resource::<TestClientEntity>();
        assert!(server.world().get::<AuthorizedClient>(authorized).is_some(), "harness: the handshake should have authorized the client app");
        // a connected client that never sends its protocol hash
        let unauthorized = server.world_mut().spawn(ConnectedClient { max_size: 1200 }).id();
        server.update();
        assert!(server.world().get::<AuthorizedClient>(unauthorized).is_none(), "harness: the second client must stay unauthorized");
        let channels = server.world().resource::<RepliconChannels>().client_channels().len();
        // the bystander: a second real client app, authorized through the handshake; its valid messages are recorded once
        let mut other = new_app();
        server.connect_client(&mut other);
        let bystander = **other.world().resource::<TestClientEntity>();
        assert!(server.world().get::<AuthorizedClient>(bystander).is_some(), "harness: the bystander should be authorized");
        server.world_mut().resource_mut::<Seen>().bystander = Some(bystander);
        let target = server.world_mut().spawn_empty().id();
        other.world_mut().send_event(PlainEvent(MARK_PLAIN));
        other.world_mut().send_event(EntityEvent(target));
        other.world_mut().client_trigger(PlainTrigger(MARK_TRIGGER));
        other.update();
        let mut valid: Vec<Option<Vec<u8>>> = std::vec![None; channels];
        for (ch, m) in other.world_mut().resource_mut::<RepliconClient>().drain_sent() {
            if ch != 0 && ch < channels { valid[ch] = Some(m.to_vec()); }
        }
        // the mapped event is only sent for entities the client knows; its wire form is the plain postcard encoding
        let mut entity_bytes = Vec::new();
        crate::shared::postcard_utils::to_extend_mut(&EntityEvent(target), &mut entity_bytes).unwrap();
        if let Some(slot) = valid.iter_mut().skip(2).find(|v| v.is_none()) { *slot = Some(entity_bytes); }
        assert!(valid.iter().filter(|v| v.is_some()).count() >= 3, "harness: expected valid bystander messages on three channels, got {valid:?}");
        let mut s = Setup { server, client, authorized, unauthorized, channels, valid, bystander };
        // calibration: without garbage the two marker messages of a frame arrive on every marked channel
        for ch in 0..channels {
            if let Err(why) = feed(&mut s, false, ch, &[]) { panic!("harness calibration failed on channel {ch}: {why}"); }
        }
        s
    }

    /// Delivers `messages` from one client on one channel in one frame. `Err(panic message)` if the frame panics.
    fn feed(s: &mut Setup, from_authorized: bool, channel: usize, messages: &[Vec<u8>]) -> Result<(), String> {
        let who = if from_authorized { s.authorized } else { s.unauthorized };
        let marker = s.valid[channel].clone();
        let before = { let seen = s.server.world().resource::<Seen>(); seen.plain + seen.entity + seen.trigger };
        let mut server = s.server.world_mut().resource_mut::<RepliconServer>();
        if let Some(m) = &marker { server.insert_received(s.bystander, channel, m.clone()); }
        for m in messages { server.insert_received(who, channel, m.clone()); }
        if let Some(m) = &marker { server.insert_received(s.bystander, channel, m.clone()); }
        quiet(|| s.server.update())?;
        // F: the bystander's two valid messages of this frame reached the game logic
        if marker.is_some() {
            let seen = s.server.world().resource::<Seen>();
            let got = seen.plain + seen.entity + seen.trigger - before;
            if got != 2 {
                return Err(format!("[no panic] {got} of the 2 valid messages another authorized client sent on the same channel in the same frame reached the server's game logic - a malformed message must be discarded without affecting anything else"));
            }
        }
        Ok(())
    }

    /// S: the server still serves the authorized client.
    fn still_serving(s: &mut Setup, tag: u32) -> Option<String> {
        let r = quiet(|| {
            let e = s.server.world_mut().spawn((Replicated, Payload(tag))).id();
            s.server.update();
            s.server.exchange_with_client(&mut s.client);
            s.client.update();
            s.server.exchange_with_client(&mut s.client);
            s.server.update();
            let local = s.client.world().resource::<ServerEntityMap>().to_client().get(&e).copied();
            match local.and_then(|l| s.client.world().get::<Payload>(l).copied()) {
                Some(Payload(t)) if t == tag => None,
                other => Some(format!("after the garbage the authorized client no longer receives replication: entity spawned afterwards arrived as {other:?}, expected Payload({tag})")),
            }
        });
        match r { Ok(v) => v, Err(p) => Some(format!("the server panicked while serving the authorized client afterwards: {p}")) }
    }

    fn hex(b: &[u8]) -> String { if b.is_empty() { String::from("-") } else { b.iter().map(|x| format!("{x:02x}")).collect() } }
    fn unhex(sv: &str) -> Vec<u8> { if sv == "-" { Vec::new() } else { (0..sv.len() / 2).map(|i| u8::from_str_radix(&sv[2 * i..2 * i + 2], 16).unwrap_or(0)).collect() } }

    /// One message alone in a fresh server.
    fn single(from_authorized: bool, channel: usize, msg: &[u8]) -> Option<String> {
        let mut s = match quiet(setup) { Ok(s) => s, Err(p) => return Some(format!("harness setup panicked: {p}")) };
        if channel >= s.channels { return Some(format!("harness: channel {channel} is not registered ({} client channels)", s.channels)); }
        if let Err(p) = feed(&mut s, from_authorized, channel, &[msg.to_vec()]) {
            return Some(if p.starts_with("[no panic]") { p } else { format!("the server panicked in the frame that received the message: {p}") });
        }
        still_serving(&mut s, 7)
    }

    fn report(from_authorized: bool, channel: usize, msg: &[u8], why: &str) -> ! {
        println!("VERIF-COUNTEREXAMPLE policy={} ops=ch{channel}:{} :: {why}", if from_authorized { "authorized" } else { "unauthorized" }, hex(msg));
        panic!("property violated on the real code: {why}");
    }

    #[test]
    fn verif_native_u10s() {
        std::panic::set_hook(std::boxed::Box::new(|_| {})); // the panics of the code under test are reported by this harness
        if let Ok(fixed) = std::env::var("VERIF_OPS") {
            let from_authorized = std::env::var("VERIF_POLICY").map(|p| p == "authorized").unwrap_or(false);
            let (ch, bytes) = fixed.trim_start_matches("ch").split_once(':').unwrap_or(("0", "-"));
            let channel: usize = ch.parse().unwrap_or(0);
            let msg = unhex(bytes);
            if let Some(why) = single(from_authorized, channel, &msg) { report(from_authorized, channel, &msg, &why); }
            return;
        }
        let depth: usize = std::env::var("VERIF_DEPTH").ok().and_then(|d| d.parse().ok()).unwrap_or(2).clamp(1, 5);
        let channels = setup().channels;
        assert!(channels >= 5, "harness: expected acks + protocol hash + three registered client channels, found {channels}");
        // jobs: (client, channel) pairs, spread over the cores
        let jobs: Vec<(bool, usize)> = [false, true].into_iter().flat_map(|a| (0..channels).map(move |c| (a, c))).collect();
        let explored = std::sync::atomic::AtomicUsize::new(0);
        let first_bad: std::sync::Mutex<Option<(usize, Vec<u8>, String)>> = std::sync::Mutex::new(None);
        let next = std::sync::atomic::AtomicUsize::new(0);
        let threads = std::thread::available_parallelism().map(|n| n.get()).unwrap_or(4).min(jobs.len());
        std::thread::scope(|sc| {
            for _ in 0..threads {
                sc.spawn(|| loop {
                    let j = next.fetch_add(1, std::sync::atomic::Ordering::SeqCst);
                    if j >= jobs.len() { break; }
                    let (from_authorized, channel) = jobs[j];
                    let bad = |msg: Vec<u8>, why: String| {
                        let mut fb = first_bad.lock().unwrap();
                        if fb.as_ref().is_none_or(|(k, ..)| j < *k) { *fb = Some((j, msg, why)); }
                    };
                    let mut s = setup();
                    // lengths 0..=2 exhaustively; longer ones over the 16 boundary bytes of the variable-length encodings
                    const ALPHABET: [u8; 16] = [0x00, 0x01, 0x02, 0x03, 0x04, 0x05, 0x3f, 0x40, 0x7e, 0x7f, 0x80, 0x81, 0xbf, 0xc0, 0xfe, 0xff];
                    let mut messages: Vec<Vec<u8>> = std::vec![Vec::new()];
                    let mut level: Vec<Vec<u8>> = std::vec![Vec::new()];
                    for len in 1..=depth {
                        let bytes: Vec<u8> = if len <= 2 { (0..=255u8).collect() } else { ALPHABET.to_vec() };
                        // longer strings extend the shorter ones that are made of alphabet bytes only
                        let stems: Vec<&Vec<u8>> = level.iter().filter(|m| len <= 2 || m.iter().all(|b| ALPHABET.contains(b))).collect();
                        let next_level: Vec<Vec<u8>> = stems.iter().flat_map(|m| bytes.iter().map(move |b| { let mut n = (*m).clone(); n.push(*b); n })).collect();
                        messages.extend(next_level.iter().cloned());
                        level = next_level;
                    }
                    let mut failed = false;
                    for batch in messages.chunks(256) {
                        explored.fetch_add(batch.len(), std::sync::atomic::Ordering::Relaxed);
                        if feed(&mut s, from_authorized, channel, batch).is_err() {
                            for m in batch {
                                if let Some(why) = single(from_authorized, channel, m) { bad(m.clone(), why); break; }
                            }
                            if first_bad.lock().unwrap().as_ref().is_none_or(|(k, ..)| *k != j) {
                                bad(batch[0].clone(), format!("a frame receiving the 256 messages starting at {} panicked, but none of them does alone", hex(&batch[0])));
                            }
                            failed = true;
                            break;
                        }
                    }
                    if !failed {
                        if let Some(why) = still_serving(&mut s, 1000 + j as u32) { bad(Vec::new(), format!("[after every message of this client and channel] {why}")); }
                    }
                });
            }
        });
        if let Some((j, msg, why)) = first_bad.into_inner().unwrap() {
            let (from_authorized, channel) = jobs[j];
            report(from_authorized, channel, &msg, &why);
        }
        println!("VERIF-EXPLORED sequences={}", explored.into_inner());
    }
}
