// Counterexample SEARCH for unit u08 (not the deciding step): run natively next to the real Updates / ChangeRanges.
// Every sequence (up to VERIF_DEPTH) of small ranges is appended with add_component / add_despawn; the byte positions
// denoted by the stored ranges and the stored count are compared with a plain list.
#[cfg(test)]
mod verif_search {
    extern crate std;
    use super::*;
    use std::{format, string::String, vec::Vec, println};

    /// A panic inside the real code is a failure of the contract too: report it with the operation sequence.
    fn guarded<F: FnOnce() -> Option<String>>(f: F) -> Option<String> {
        match std::panic::catch_unwind(std::panic::AssertUnwindSafe(f)) {
            Ok(r) => r,
            Err(p) => {
                let msg = p.downcast_ref::<&str>().map(|s| String::from(*s)).or_else(|| p.downcast_ref::<String>().cloned()).unwrap_or_default();
                Some(format!("the real code panicked: {msg}"))
            }
        }
    }

    const RANGES: [(usize, usize); 8] = [(0, 2), (2, 3), (2, 5), (3, 4), (5, 5), (5, 6), (6, 9), (1, 2)];

    fn denote(rs: &[Range<usize>]) -> Vec<usize> { rs.iter().flat_map(|r| r.clone()).collect() }

    fn run(seq: &[usize]) -> Option<String> {
        let mut cr = ChangeRanges { entity: 0..0, components_len: 0, components: Vec::new() };
        let mut up = Updates::default();
        let mut model: Vec<usize> = Vec::new();
        for (step, &i) in seq.iter().enumerate() {
            let r = RANGES[i].0..RANGES[i].1;
            cr.add_component(r.clone());
            up.add_despawn(r.clone());
            model.extend(r.clone());
            if denote(&cr.components) != model { return Some(format!("step {step}: add_component({r:?}) -> ranges {:?} denote {:?}, recorded {model:?}", cr.components, denote(&cr.components))); }
            if cr.components_len != step + 1 { return Some(format!("step {step}: components_len = {}, recorded {}", cr.components_len, step + 1)); }
            if denote(&up.despawns) != model { return Some(format!("step {step}: add_despawn({r:?}) -> ranges {:?} denote {:?}, recorded {model:?}", up.despawns, denote(&up.despawns))); }
            if up.despawns_len != step + 1 { return Some(format!("step {step}: despawns_len = {}, recorded {}", up.despawns_len, step + 1)); }
        }
        None
    }

    fn show(seq: &[usize]) -> String { seq.iter().map(|i| format!("{}..{}", RANGES[*i].0, RANGES[*i].1)).collect::<Vec<_>>().join(",") }

    #[test]
    fn verif_search_u08() {
        if let Ok(fixed) = std::env::var("VERIF_OPS") {
            let seq: Vec<usize> = fixed.split(',').filter(|t| !t.is_empty()).map(|t| {
                let (a, b) = t.split_once("..").unwrap();
                let (a, b): (usize, usize) = (a.parse().unwrap(), b.parse().unwrap());
                RANGES.iter().position(|&r| r == (a, b)).unwrap()
            }).collect();
            if let Some(why) = guarded(|| run(&seq)) {
                println!("VERIF-COUNTEREXAMPLE policy=- ops={} :: {why}", show(&seq));
                panic!("contract violated on the real code: {why}");
            }
            return;
        }
        let depth: usize = std::env::var("VERIF_DEPTH").ok().and_then(|d| d.parse().ok()).unwrap_or(4);
        for len in 0..=depth {
            let mut idx = std::vec![0usize; len];
            loop {
                if let Some(why) = guarded(|| run(&idx)) {
                    println!("VERIF-COUNTEREXAMPLE policy=- ops={} :: {why}", show(&idx));
                    panic!("contract violated on the real code: {why}");
                }
                let mut k = 0;
                while k < len { idx[k] += 1; if idx[k] < RANGES.len() { break; } idx[k] = 0; k += 1; }
                if k == len { break; }
            }
        }
    }
}
