// BOUNDED native stand-in (unit u07s, runs on every check): the system-level half of C10 - `Mutations::send`'s packing
// loop as a whole, the graph index chosen per mutated entity in `collect_changes`, and the relation graphs maintained by
// the observers of `related_entities.rs` (petgraph, Bevy observers, `Query`: outside both verifiers). A real server `App`
// with `sync_related_entities::<ChildOf>()` and a real client `App`; four replicated entities, each with two
// components (`BlobA` of a configurable size, `BlobB`), wired in one of five relationship shapes, optionally edited before
// the measurement (relation removed / entity re-parented / two existing hierarchies joined). For every (shape, edit, size vector) one pair of apps is built
// and then, for every maximum message size, every non-empty subset of entities and both mutation modes (A only | A and B),
// the subset is mutated, ONE server tick is run and the messages on the mutations channel are inspected (recognisable
// payloads carrying entity, component and version), then delivered and acknowledged before the next round:
//   T  every mutated component's current payload is in exactly one message (nothing missing, nothing duplicated);
//   E  all mutated components of one entity are in the same message;
//   G  mutated entities connected (transitively) through the synchronized relationship are in the same message;
//   S  if header + every group's mutations <= max_size, no message exceeds max_size;
//   O  if header + all mutations <= max_size, exactly one message is sent;
//   A  (C11, where a tick needs several messages) only the FIRST message is delivered and acknowledged: in the next tick
//      exactly the entities of the other messages are re-sent - an acknowledgement covers the entities of its own message only.
// The harness' own size arithmetic (header = update tick + server tick + 2-byte index; entity = its wire encoding +
// length prefix + components) is cross-checked against the bytes actually sent in every round; a disagreement is
// reported as VERIF-HARNESS-MISMATCH (undecided), never as a violation.
#[cfg(test)]
mod verif_search_p {
    extern crate std;
    use super::*;
    use crate::{
        shared::{backend::channels::ServerChannel, entity_serde},
        test_app::{ServerTestAppExt, TestClientEntity},
    };
    use postcard::experimental::serialized_size;
    use serde::{Deserialize, Serialize};
    use std::{format, println, string::String, vec::Vec};

    #[derive(Component, Serialize, Deserialize, Clone, PartialEq, Debug)]
    struct BlobA(Vec<u8>);
    #[derive(Component, Serialize, Deserialize, Clone, PartialEq, Debug)]
    struct BlobB(Vec<u8>);

    fn blob(slot: u8, kind: u8, ver: u16, pad: usize) -> Vec<u8> {
        let mut v = std::vec![0xD1, 0x5E, slot, kind, ver as u8, (ver >> 8) as u8, 0xC0, 0xDE];
        v.extend(core::iter::repeat(0xAA).take(pad));
        v
    }
    fn payloads_in(bytes: &[u8]) -> Vec<(u8, u8, u16)> {
        bytes.windows(8).filter(|w| w[0] == 0xD1 && w[1] == 0x5E && w[6] == 0xC0 && w[7] == 0xDE)
            .map(|w| (w[2], w[3], w[4] as u16 | (w[5] as u16) << 8)).collect()
    }
    fn varint_len(mut v: u64) -> usize { let mut n = 1; while v >= 0x80 { v >>= 7; n += 1; } n }

    fn guarded<F: FnOnce() -> Option<String>>(f: F) -> Option<String> {
        match std::panic::catch_unwind(std::panic::AssertUnwindSafe(f)) {
            Ok(r) => r,
            Err(p) => {
                let msg = p.downcast_ref::<&str>().map(|s| String::from(*s)).or_else(|| p.downcast_ref::<String>().cloned()).unwrap_or_default();
                Some(format!("the real code panicked: {msg}"))
            }
        }
    }

    fn new_app() -> App {
        let mut app = App::new();
        app.add_plugins((
            MinimalPlugins,
            RepliconPlugins.set(ServerPlugin { tick_policy: TickPolicy::EveryFrame, ..Default::default() }),
        ))
        .sync_related_entities::<ChildOf>()
        .replicate::<BlobA>()
        .replicate::<BlobB>()
        .replicate::<ChildOf>()
        .finish();
        app
    }

    /// parent of each entity slot (None = root) for the five shapes
    const SHAPES: [[Option<usize>; 4]; 5] = [
        [None, None, None, None],
        [None, Some(0), None, None],
        [None, Some(0), Some(1), None],
        [None, Some(0), Some(0), None],
        [None, Some(0), None, Some(2)],
    ];

    #[derive(Clone, Debug)]
    struct Job { shape: usize, edit: usize, sizes: [usize; 4] }

    fn groups(parent: &[Option<usize>; 4]) -> [usize; 4] {
        let mut g = [0, 1, 2, 3];
        for _ in 0..4 { for i in 0..4 { if let Some(p) = parent[i] { let m = g[i].min(g[p]); g[i] = m; g[p] = m; } } }
        // propagate to a fixpoint (chains)
        for _ in 0..4 { for i in 0..4 { if let Some(p) = parent[i] { let m = g[i].min(g[p]); g[i] = m; g[p] = m; } } }
        g
    }

    fn deliver_all(server: &mut App, client: &mut App) {
        server.update();
        server.exchange_with_client(client);
        client.update();
        server.exchange_with_client(client);
    }

    /// Runs the rounds of one job (all of them, or up to and including `only_round`). Returns (round, why) of the first violation.
    fn run(job: &Job, max_sizes: &[usize], only_round: Option<usize>, rounds_done: &mut usize) -> Option<(usize, String)> {
        let mut server = new_app();
        let mut client = new_app();
        server.connect_client(&mut client);
        let ce = **client.world().resource::<TestClientEntity>();
        let mut parent = SHAPES[job.shape];
        let mut ver: u16 = 0;
        let mut ents: Vec<Entity> = Vec::new();
        for i in 0..4u8 {
            ver += 2;
            let e = server.world_mut().spawn((Replicated, BlobA(blob(i, 0, ver, job.sizes[i as usize])), BlobB(blob(i, 1, ver + 1, 4)))).id();
            ents.push(e);
        }
        for i in 0..4 { if let Some(p) = parent[i] { server.world_mut().entity_mut(ents[i]).insert(ChildOf(ents[p])); } }
        deliver_all(&mut server, &mut client);
        deliver_all(&mut server, &mut client);
        match job.edit {
            1 => { if parent[1].is_some() { server.world_mut().entity_mut(ents[1]).remove::<ChildOf>(); parent[1] = None; } }
            2 => { server.world_mut().entity_mut(ents[1]).insert(ChildOf(ents[3])); parent[1] = Some(3); }
            3 => { if parent[2].is_none() { server.world_mut().entity_mut(ents[2]).insert(ChildOf(ents[1])); parent[2] = Some(1); } }
            _ => {}
        }
        if job.edit != 0 { deliver_all(&mut server, &mut client); deliver_all(&mut server, &mut client); }
        let group = groups(&parent);
        let mutations_channel: usize = ServerChannel::Mutations.into();
        let mut round = 0usize;
        for &max_size in max_sizes {
            server.world_mut().get_mut::<ConnectedClient>(ce).unwrap().max_size = max_size;
            for both in [false, true] {
                for subset in 1u8..16 {
                    if only_round.is_some_and(|r| round > r) { return None; }
                    *rounds_done += 1;
                    let at = |why: String| Some((round, format!("round {round} (max_size {max_size}, mutated entities {:?}, {}): {why}",
                        (0..4).filter(|i| subset >> i & 1 == 1).collect::<Vec<_>>(), if both { "components A and B" } else { "component A" })));
                    // mutate
                    let mut expected: Vec<(u8, u8, u16)> = Vec::new();
                    let mut body = [0usize; 4];
                    for i in 0..4usize {
                        if subset >> i & 1 == 0 { continue; }
                        ver += 2;
                        let a = BlobA(blob(i as u8, 0, ver, job.sizes[i]));
                        let mut csize = 1 + serialized_size(&a).unwrap();
                        expected.push((i as u8, 0, ver));
                        *server.world_mut().get_mut::<BlobA>(ents[i]).unwrap() = a;
                        if both {
                            let b = BlobB(blob(i as u8, 1, ver + 1, 4));
                            csize += 1 + serialized_size(&b).unwrap();
                            expected.push((i as u8, 1, ver + 1));
                            *server.world_mut().get_mut::<BlobB>(ents[i]).unwrap() = b;
                        }
                        let mut eb = Vec::new();
                        entity_serde::serialize_entity(&mut eb, ents[i]).unwrap();
                        body[i] = eb.len() + varint_len(csize as u64) + csize;
                    }
                    server.update();
                    let tick_now = server.world().resource::<ServerTick>().get();
                    let sent: Vec<(usize, Vec<u8>)> = server.world_mut().resource_mut::<RepliconServer>().drain_sent()
                        .filter(|(c, ..)| *c == ce).map(|(_, ch, m)| (ch, m.to_vec())).collect();
                    let msgs: Vec<&Vec<u8>> = sent.iter().filter(|(ch, _)| *ch == mutations_channel).map(|(_, m)| m).collect();
                    if sent.len() != msgs.len() {
                        return at(format!("harness expectation: a pure mutation round sent {} message(s) on other channels", sent.len() - msgs.len()));
                    }
                    // T, E: where is each expected payload
                    let mut home = [usize::MAX; 4];
                    for p in &expected {
                        let holders: Vec<usize> = msgs.iter().enumerate().filter(|(_, m)| payloads_in(m).contains(p)).map(|(k, _)| k).collect();
                        if holders.len() != 1 {
                            return at(format!("the current payload of entity {} component {} is in {} mutate messages (of {}), expected exactly one", p.0, if p.1 == 0 { 'A' } else { 'B' }, holders.len(), msgs.len()));
                        }
                        let i = p.0 as usize;
                        if home[i] != usize::MAX && home[i] != holders[0] {
                            return at(format!("entity {i}: component A travels in message {} and component B in message {} - an entity must not be split", home[i], holders[0]));
                        }
                        home[i] = holders[0];
                    }
                    for m in &msgs {
                        for p in payloads_in(m) { if !expected.contains(&p) { return at(format!("a mutate message carries a payload that was not mutated in this round: entity {} component {} version {}", p.0, p.1, p.2)); } }
                    }
                    // G
                    for i in 0..4 { for j in i + 1..4 {
                        if home[i] != usize::MAX && home[j] != usize::MAX && group[i] == group[j] && home[i] != home[j] {
                            return at(format!("entities {i} and {j} are connected through the synchronized relationship (parents {parent:?}) but travel in different messages ({} and {})", home[i], home[j]));
                        }
                    } }
                    // sizes: the harness' arithmetic against the wire
                    // the update tick is the tick of the last update message (sent during the set-up: below 128, one byte)
                    let header = 1 + varint_len(tick_now as u64) + 2;
                    let total_body: usize = body.iter().sum();
                    let wire_body: usize = msgs.iter().map(|m| m.len()).sum::<usize>() - header * msgs.len();
                    if wire_body != total_body {
                        println!("VERIF-HARNESS-MISMATCH job={job:?} round={round}: bodies on the wire {wire_body}, harness arithmetic {total_body}, header {header}, tick {tick_now}");
                        panic!("harness size arithmetic does not match the wire format");
                    }
                    // S
                    let mut gsize = [0usize; 4];
                    for i in 0..4 { gsize[group[i]] += body[i]; }
                    if gsize.iter().all(|g| header + g <= max_size) {
                        if let Some(m) = msgs.iter().find(|m| m.len() > max_size) {
                            return at(format!("every group fits (header {header} + group bodies {gsize:?} <= {max_size}) but a message of {} bytes was sent", m.len()));
                        }
                    }
                    // O
                    if header + total_body <= max_size && msgs.len() != 1 {
                        return at(format!("everything fits into one message (header {header} + {total_body} <= {max_size}) but {} messages were sent (sizes {:?})", msgs.len(), msgs.iter().map(|m| m.len()).collect::<Vec<_>>()));
                    }
                    if msgs.len() >= 2 {
                        // A: only the first message arrives and is acknowledged
                        let first = msgs[0].clone();
                        client.world_mut().resource_mut::<RepliconClient>().insert_received(mutations_channel, first);
                        client.update();
                        server.exchange_with_client(&mut client);
                        server.update();
                        let again: Vec<(usize, Vec<u8>)> = server.world_mut().resource_mut::<RepliconServer>().drain_sent()
                            .filter(|(c, ..)| *c == ce).map(|(_, ch, m)| (ch, m.to_vec())).collect();
                        let resent: Vec<(u8, u8, u16)> = again.iter().filter(|(ch, _)| *ch == mutations_channel).flat_map(|(_, m)| payloads_in(m)).collect();
                        for p in &expected {
                            let i = p.0 as usize;
                            if home[i] == 0 && resent.contains(p) {
                                return at(format!("entity {i} travelled in the first message, which was delivered and acknowledged, yet it is re-sent in the next tick"));
                            }
                            if home[i] != 0 && !resent.contains(p) {
                                return at(format!("entity {i} travelled in message {} of {}, which was lost; only the first message was acknowledged, yet entity {i} is not re-sent in the next tick - an acknowledgement must cover the entities of its own message only", home[i], msgs.len()));
                            }
                        }
                        for (ch, m) in again { client.world_mut().resource_mut::<RepliconClient>().insert_received(ch, m); }
                    } else {
                        // deliver + acknowledge, so that the next round starts clean
                        for (ch, m) in sent { client.world_mut().resource_mut::<RepliconClient>().insert_received(ch, m); }
                    }
                    client.update();
                    server.exchange_with_client(&mut client);
                    deliver_all(&mut server, &mut client);
                    round += 1;
                }
            }
        }
        None
    }

    fn show(job: &Job, round: usize) -> String { format!("shape-{},edit-{},sizes-{}.{}.{}.{},round-{round}", job.shape, job.edit, job.sizes[0], job.sizes[1], job.sizes[2], job.sizes[3]) }
    fn parse(sv: &str) -> (Job, usize) {
        let mut job = Job { shape: 0, edit: 0, sizes: [8; 4] };
        let mut round = 0;
        for t in sv.split(',') {
            if let Some(v) = t.strip_prefix("shape-") { job.shape = v.parse().unwrap_or(0); }
            if let Some(v) = t.strip_prefix("edit-") { job.edit = v.parse().unwrap_or(0); }
            if let Some(v) = t.strip_prefix("round-") { round = v.parse().unwrap_or(0); }
            if let Some(v) = t.strip_prefix("sizes-") { for (i, x) in v.split('.').enumerate().take(4) { job.sizes[i] = x.parse().unwrap_or(8); } }
        }
        (job, round)
    }

    fn max_sizes(depth: usize) -> Vec<usize> { if depth >= 5 { std::vec![90, 100, 130, 170, 240, 400] } else { std::vec![100, 130, 170, 240] } }

    #[test]
    fn verif_native_u07s() {
        let depth: usize = std::env::var("VERIF_DEPTH").ok().and_then(|d| d.parse().ok()).unwrap_or(4);
        if let Ok(fixed) = std::env::var("VERIF_OPS") {
            let (job, round) = parse(&fixed);
            let ms: Vec<usize> = std::env::var("VERIF_POLICY").ok().map(|p| p.split('+').filter_map(|x| x.parse().ok()).collect()).filter(|v: &Vec<usize>| !v.is_empty()).unwrap_or_else(|| max_sizes(depth));
            let mut n = 0;
            if let Some(why) = guarded(|| run(&job, &ms, Some(round), &mut n).map(|(r, w)| format!("[{}] {w}", show(&job, r)))) {
                println!("VERIF-COUNTEREXAMPLE policy={} ops={} :: {why}", ms.iter().map(|m| format!("{m}")).collect::<Vec<_>>().join("+"), show(&job, round));
                panic!("property violated on the real code: {why}");
            }
            return;
        }
        // the pad sizes of BlobA: depth 4 (quick) three values, depth >= 5 five
        let pads: Vec<usize> = if depth >= 5 { std::vec![8, 30, 52, 75, 110] } else { std::vec![8, 40, 75] };
        let ms = max_sizes(depth);
        let mut jobs: Vec<Job> = Vec::new();
        for shape in 0..SHAPES.len() { for edit in 0..4 {
            let n = pads.len();
            for code in 0..n * n * n * n {
                let sizes = [pads[code % n], pads[code / n % n], pads[code / n / n % n], pads[code / n / n / n % n]];
                jobs.push(Job { shape, edit, sizes });
            }
        } }
        let threads: usize = std::env::var("VERIF_THREADS").ok().and_then(|d| d.parse().ok())
            .unwrap_or_else(|| std::thread::available_parallelism().map(|n| n.get()).unwrap_or(4));
        let next = std::sync::atomic::AtomicUsize::new(0);
        let explored = std::sync::atomic::AtomicUsize::new(0);
        let first_bad: std::sync::Mutex<Option<(usize, usize, String)>> = std::sync::Mutex::new(None);
        std::thread::scope(|sc| {
            for _ in 0..threads {
                sc.spawn(|| loop {
                    let i = next.fetch_add(1, std::sync::atomic::Ordering::SeqCst);
                    if i >= jobs.len() { break; }
                    if first_bad.lock().unwrap().as_ref().is_some_and(|(j, ..)| *j < i) { break; }
                    let mut n = 0usize;
                    let mut found: Option<(usize, String)> = None;
                    let r = guarded(|| { found = run(&jobs[i], &ms, None, &mut n); None });
                    explored.fetch_add(n, std::sync::atomic::Ordering::Relaxed);
                    let found = found.or(r.map(|w| (n.saturating_sub(1), w)));
                    if let Some((round, why)) = found {
                        let mut fb = first_bad.lock().unwrap();
                        if fb.as_ref().is_none_or(|(j, ..)| i < *j) { *fb = Some((i, round, why)); }
                    }
                });
            }
        });
        if let Some((i, round, why)) = first_bad.into_inner().unwrap() {
            if why.contains("harness size arithmetic") { panic!("{why}"); }
            println!("VERIF-COUNTEREXAMPLE policy={} ops={} :: {why}", ms.iter().map(|m| format!("{m}")).collect::<Vec<_>>().join("+"), show(&jobs[i], round));
            panic!("property violated on the real code: {why}");
        }
        println!("VERIF-EXPLORED sequences={}", explored.into_inner());
    }
}
