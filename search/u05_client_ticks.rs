// Counterexample SEARCH for unit u05 (not the deciding step): run natively next to the real ClientTicks. Every operation
// sequence (up to VERIF_DEPTH) over two entities against a plain-map model written from property C11: an acknowledgement
// of an unknown message changes nothing; a known one is consumed once and moves the tick of each entity it names forward
// to the message's tick unless the entity's tick is already newer; a registered message starts with no entities.
#[cfg(test)]
mod verif_search {
    extern crate std;
    use super::*;
    use std::{collections::BTreeMap, format, string::String, vec::Vec, println};

    /// A panic inside the real code is a failure of the contract too: report it with the operation sequence.
    fn guarded<F: FnOnce() -> Option<String>>(f: F) -> Option<String> {
        match std::panic::catch_unwind(std::panic::AssertUnwindSafe(f)) {
            Ok(r) => r,
            Err(p) => {
                let msg = p.downcast_ref::<&str>().map(|s| String::from(*s)).or_else(|| p.downcast_ref::<String>().cloned()).unwrap_or_default();
                Some(format!("the real code panicked: {msg}"))
            }
        }
    }

    #[derive(Clone, Copy, Debug, PartialEq)]
    enum Op { SetTick(usize, u32), Remove(usize), Register(u32, u8), Ack(usize), AckUnknown, Cleanup }

    const NOW: u32 = 20;
    fn ent(i: usize) -> Entity { Entity::from_raw(i as u32 + 1) }

    fn all_ops() -> Vec<Op> {
        let mut v = Vec::new();
        for e in 0..2 { for t in [1u32, 5, 9] { v.push(Op::SetTick(e, t)); } v.push(Op::Remove(e)); }
        for t in [3u32, 7] { for sub in 0..4u8 { v.push(Op::Register(t, sub)); } }
        for k in 0..3 { v.push(Op::Ack(k)); }
        v.push(Op::AckUnknown);
        v.push(Op::Cleanup);
        v
    }

    fn run(ops: &[Op]) -> Option<String> {
        let mut real = ClientTicks::default();
        let mut buffer = EntityBuffer::default();
        let mut ticks: BTreeMap<usize, u32> = BTreeMap::new();
        let mut inflight: Vec<(MutateIndex, u32, Vec<usize>)> = Vec::new(); // registration order
        let mut acked: Vec<bool> = Vec::new();
        for (step, op) in ops.iter().enumerate() {
            match *op {
                Op::SetTick(e, t) => { real.set_mutation_tick(ent(e), Tick::new(t)); ticks.insert(e, t); }
                Op::Remove(e) => { real.remove_entity(ent(e)); ticks.remove(&e); }
                Op::Register(t, sub) => {
                    // messages are stamped 1 s, 5 s, 1 s, ... so that `Cleanup` (everything older than 3 s) hits some of them
                    let stamp = Duration::from_secs(if inflight.len() % 2 == 0 { 1 } else { 5 });
                    let (idx, entities) = real.register_mutate_message(&mut buffer, Tick::new(t), stamp);
                    if !entities.is_empty() { return Some(format!("step {step}: a freshly registered message already lists {} entities", entities.len())); }
                    let mut named = Vec::new();
                    for e in 0..2 { if sub & (1 << e) != 0 { entities.push(ent(e)); named.push(e); } }
                    if inflight.iter().zip(&acked).any(|((i, _, _), a)| *i == idx && !*a) { return Some(format!("step {step}: index {idx:?} handed out twice while in flight")); }
                    inflight.push((idx, t, named));
                    acked.push(false);
                }
                Op::Ack(k) => {
                    if k >= inflight.len() { continue; }
                    let (idx, t, named) = inflight[k].clone();
                    real.ack_mutate_message(Entity::PLACEHOLDER, &mut buffer, Tick::new(NOW), idx);
                    if !acked[k] {
                        acked[k] = true;
                        for e in named {
                            if let Some(cur) = ticks.get_mut(&e) {
                                if !Tick::new(*cur).is_newer_than(Tick::new(t), Tick::new(NOW)) { *cur = t; }
                            }
                        }
                    }
                }
                Op::Cleanup => {
                    // time-based cleanup: unacknowledged messages older than the limit are forgotten; acknowledging them
                    // later must change nothing (the data is simply re-sent)
                    real.cleanup_older_mutations(&mut buffer, Duration::from_secs(3));
                    for k in 0..inflight.len() { if k % 2 == 0 { acked[k] = true; } }
                }
                Op::AckUnknown => { real.ack_mutate_message(Entity::PLACEHOLDER, &mut buffer, Tick::new(NOW), MutateIndex::default().advance_by_for_test(40000)); }
            }
            for e in 0..2 {
                let got = real.mutation_tick(ent(e)).map(|t| t.get());
                if got != ticks.get(&e).copied() { return Some(format!("step {step} ({op:?}): mutation_tick({e}) = {got:?}, model {:?}", ticks.get(&e))); }
            }
            let live = acked.iter().filter(|a| !**a).count();
            if real.mutations.len() != live { return Some(format!("step {step} ({op:?}): {} messages in flight, model {live}", real.mutations.len())); }
        }
        None
    }

    trait ForTest { fn advance_by_for_test(self, n: u32) -> MutateIndex; }
    impl ForTest for MutateIndex {
        fn advance_by_for_test(mut self, n: u32) -> MutateIndex { for _ in 0..n { self.advance(); } self }
    }

    fn show(ops: &[Op]) -> String { ops.iter().map(|o| format!("{o:?}").replace(", ", "_").replace(['(', ')'], "-")).collect::<Vec<_>>().join(",") }
    fn parse(sv: &str) -> Vec<Op> {
        sv.split(',').filter(|t| !t.is_empty()).map(|t| {
            let p: Vec<&str> = t.split('-').collect();
            let n: Vec<u32> = p.get(1).map(|x| x.split('_').filter_map(|y| y.parse().ok()).collect()).unwrap_or_default();
            match p[0] { "SetTick" => Op::SetTick(n[0] as usize, n[1]), "Remove" => Op::Remove(n[0] as usize), "Register" => Op::Register(n[0], n[1] as u8),
                "Ack" => Op::Ack(n[0] as usize), "Cleanup" => Op::Cleanup, _ => Op::AckUnknown }
        }).collect()
    }

    #[test]
    fn verif_search_u05() {
        if let Ok(fixed) = std::env::var("VERIF_OPS") {
            let ops = parse(&fixed);
            if let Some(why) = guarded(|| run(&ops)) {
                println!("VERIF-COUNTEREXAMPLE policy=- ops={} :: {why}", show(&ops));
                panic!("contract violated on the real code: {why}");
            }
            return;
        }
        let depth: usize = std::env::var("VERIF_DEPTH").ok().and_then(|d| d.parse().ok()).unwrap_or(4);
        let ops = all_ops();
        for len in 0..=depth {
            let mut idx = std::vec![0usize; len];
            loop {
                let seq: Vec<Op> = idx.iter().map(|&k| ops[k]).collect();
                if let Some(why) = guarded(|| run(&seq)) {
                    println!("VERIF-COUNTEREXAMPLE policy=- ops={} :: {why}", show(&seq));
                    panic!("contract violated on the real code: {why}");
                }
                let mut k = 0;
                while k < len { idx[k] += 1; if idx[k] < ops.len() { break; } idx[k] = 0; k += 1; }
                if k == len { break; }
            }
        }
    }

    /// Bounded stand-in run on every check (unit u05n): includes `cleanup_older_mutations`, which is outside Verus' subset.
    #[test]
    fn verif_native_u05n() {
        if let Ok(fixed) = std::env::var("VERIF_OPS") {
            let ops = parse(&fixed);
            if let Some(why) = guarded(|| run(&ops)) {
                println!("VERIF-COUNTEREXAMPLE policy=- ops={} :: {why}", show(&ops));
                panic!("contract violated on the real code: {why}");
            }
            return;
        }
        let depth: usize = std::env::var("VERIF_DEPTH").ok().and_then(|d| d.parse().ok()).unwrap_or(4);
        let ops = all_ops();
        let mut explored = 0usize;
        for len in 0..=depth {
            let mut idx = std::vec![0usize; len];
            loop {
                let seq: Vec<Op> = idx.iter().map(|&k| ops[k]).collect();
                explored += 1;
                if let Some(why) = guarded(|| run(&seq)) {
                    println!("VERIF-COUNTEREXAMPLE policy=- ops={} :: {why}", show(&seq));
                    panic!("contract violated on the real code: {why}");
                }
                let mut k = 0;
                while k < len { idx[k] += 1; if idx[k] < ops.len() { break; } idx[k] = 0; k += 1; }
                if k == len { break; }
            }
        }
        println!("VERIF-EXPLORED sequences={explored}");
    }
}
