// Counterexample SEARCH for unit u13 (not the deciding step): the run conditions are finite-state, so every input is
// enumerated natively on the real functions: client resource absent / Disconnected / Connecting / Connected, server
// resource absent / stopped / running, and both values of each condition's stored flag.
#[cfg(test)]
mod verif_search {
    extern crate std;
    use super::*;
    use bevy::ecs::system::{Local, Res, RunSystemOnce};
    use std::{format, string::String, vec::Vec, println};

    /// A panic inside the real code is a failure of the contract too: report it with the operation sequence.
    fn guarded<F: FnOnce() -> Option<String>>(f: F) -> Option<String> {
        match std::panic::catch_unwind(std::panic::AssertUnwindSafe(f)) {
            Ok(r) => r,
            Err(p) => {
                let msg = p.downcast_ref::<&str>().map(|s| String::from(*s)).or_else(|| p.downcast_ref::<String>().cloned()).unwrap_or_default();
                Some(format!("the real code panicked: {msg}"))
            }
        }
    }

    fn client_world(status: Option<RepliconClientStatus>) -> World {
        let mut world = World::new();
        if let Some(s) = status {
            let mut c = RepliconClient::default();
            c.set_status(s);
            world.insert_resource(c);
        }
        world
    }
    fn server_world(running: Option<bool>) -> World {
        let mut world = World::new();
        if let Some(r) = running {
            let mut s = RepliconServer::default();
            s.set_running(r);
            world.insert_resource(s);
        }
        world
    }

    const STATUSES: [Option<RepliconClientStatus>; 4] = [None, Some(RepliconClientStatus::Disconnected),
        Some(RepliconClientStatus::Connecting), Some(RepliconClientStatus::Connected)];

    fn check() -> Option<String> {
        // plain conditions: exactly one of "send remotely" / "re-emit locally" unless connecting
        for st in STATUSES {
            let mut w = client_world(st);
            let remote = w.run_system_once(client_connected).unwrap();
            let local = w.run_system_once(server_or_singleplayer).unwrap();
            let connecting = w.run_system_once(client_connecting).unwrap();
            let want_remote = st == Some(RepliconClientStatus::Connected);
            let want_local = st.is_none() || st == Some(RepliconClientStatus::Disconnected);
            if remote != want_remote { return Some(format!("client_connected = {remote} for status {st:?}")); }
            if local != want_local { return Some(format!("server_or_singleplayer = {local} for status {st:?}")); }
            if connecting != (st == Some(RepliconClientStatus::Connecting)) { return Some(format!("client_connecting = {connecting} for status {st:?}")); }
        }
        for run in [None, Some(false), Some(true)] {
            let mut w = server_world(run);
            let got = w.run_system_once(server_running).unwrap();
            if got != (run == Some(true)) { return Some(format!("server_running = {got} for server {run:?}")); }
        }
        // edge detectors: every two-step status history, the condition evaluated after each step with its Local kept
        for a in STATUSES { for b in STATUSES { for c in STATUSES {
            let hist = [a, b, c];
            let mut w = World::new();
            let mut ids = (w.register_system(client_just_connected), w.register_system(client_just_disconnected),
                           w.register_system(client_started_connecting));
            let mut prev_connected = false; let mut prev_disc_flag_not = false; let mut prev_connecting = false;
            for (i, st) in hist.iter().enumerate() {
                w.remove_resource::<RepliconClient>();
                if let Some(s) = st { let mut cl = RepliconClient::default(); cl.set_status(*s); w.insert_resource(cl); }
                let connected = *st == Some(RepliconClientStatus::Connected);
                let disconnected = *st == Some(RepliconClientStatus::Disconnected);
                let connecting = *st == Some(RepliconClientStatus::Connecting);
                let jc = w.run_system(ids.0).unwrap();
                let jd = w.run_system(ids.1).unwrap();
                let sc = w.run_system(ids.2).unwrap();
                if jc != (!prev_connected && connected) { return Some(format!("client_just_connected = {jc} at step {i} of history {hist:?}")); }
                if jd != (prev_disc_flag_not && disconnected) { return Some(format!("client_just_disconnected = {jd} at step {i} of history {hist:?}")); }
                if sc != (!prev_connecting && connecting) { return Some(format!("client_started_connecting = {sc} at step {i} of history {hist:?}")); }
                prev_connected = connected; prev_disc_flag_not = !disconnected; prev_connecting = connecting;
                let _ = &mut ids;
            }
        }}}
        for a in [None, Some(false), Some(true)] { for b in [None, Some(false), Some(true)] { for c in [None, Some(false), Some(true)] {
            let hist = [a, b, c];
            let mut w = World::new();
            let (s0, s1) = (w.register_system(server_just_started), w.register_system(server_just_stopped));
            let mut prev = false;
            for (i, run) in hist.iter().enumerate() {
                w.remove_resource::<RepliconServer>();
                if let Some(r) = run { let mut sv = RepliconServer::default(); sv.set_running(*r); w.insert_resource(sv); }
                let running = *run == Some(true);
                let js = w.run_system(s0).unwrap();
                let jt = w.run_system(s1).unwrap();
                if js != (!prev && running) { return Some(format!("server_just_started = {js} at step {i} of history {hist:?}")); }
                if jt != (prev && !running) { return Some(format!("server_just_stopped = {jt} at step {i} of history {hist:?}")); }
                prev = running;
            }
        }}}
        None
    }

    #[test]
    fn verif_search_u13() {
        if let Some(why) = guarded(|| check()) {
            println!("VERIF-COUNTEREXAMPLE policy=- ops=- :: {why}");
            panic!("contract violated on the real code: {why}");
        }
    }
}
