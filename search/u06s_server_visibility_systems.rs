// BOUNDED native stand-in (unit u06s, runs on every check): the visibility filters of the Bevy systems in `server.rs`
// (`collect_despawns`, `collect_removals`, `collect_changes`, `send_replication`) - they take `Query`/`World` parameters and
// use `unsafe` component access, so neither verifier can bring them under contract. A real server `App` with two connected
// real client `App`s (the repository's own `test_app` transport) is driven through EVERY operation sequence up to
// VERIF_DEPTH over one or two replicated entities:
//   Spawn, Despawn, Hide, Show (client 0 only), Mutate (new payload), InsertExtra, RemoveExtra, StripSecret (the entity may
//   end up with no replicated component at all), Tick (server update +
//   delivery of everything + client update + delivery of the acks)
// under both list policies, starting from an empty world or from an entity the client already holds. At every Tick:
//   W  no message handed to the transport for a client contains a payload (recognisable 8-byte pattern carrying the entity
//      slot) of an entity that is hidden from that client at that tick;
//   Q  `ClientVisibility::is_visible` equals the most recent setting of every live entity (policy default otherwise);
//   V  after the round trip each client's world holds exactly the live entities visible to it, each with exactly the
//      server's replicated components and current values (gaining visibility delivers the whole entity, losing it removes
//      the entity), and client 1 - whose settings are never touched - is unaffected by client 0's settings.
#[cfg(test)]
mod verif_search_s {
    extern crate std;
    use super::*;
    use crate::{
        shared::server_entity_map::ServerEntityMap,
        test_app::{ServerTestAppExt, TestClientEntity},
    };
    use serde::{Deserialize, Serialize};
    use std::{format, println, string::String, vec::Vec};

    #[derive(Component, Serialize, Deserialize, Clone, Copy, PartialEq, Debug)]
    struct Secret([u8; 8]);
    #[derive(Component, Serialize, Deserialize, Clone, Copy, PartialEq, Debug)]
    struct Extra([u8; 8]);

    fn payload(slot: u8, kind: u8, ver: u16) -> [u8; 8] { [0xD1, 0x5E, slot, kind, ver as u8, (ver >> 8) as u8, 0xC0, 0xDE] }

    /// Entity slots whose payloads occur in `bytes`.
    fn slots_in(bytes: &[u8]) -> Vec<u8> {
        let mut found = Vec::new();
        for w in bytes.windows(8) {
            if w[0] == 0xD1 && w[1] == 0x5E && w[6] == 0xC0 && w[7] == 0xDE && !found.contains(&w[2]) { found.push(w[2]); }
        }
        found
    }

    fn guarded<F: FnOnce() -> Option<String>>(f: F) -> Option<String> {
        match std::panic::catch_unwind(std::panic::AssertUnwindSafe(f)) {
            Ok(r) => r,
            Err(p) => {
                let msg = p.downcast_ref::<&str>().map(|s| String::from(*s)).or_else(|| p.downcast_ref::<String>().cloned()).unwrap_or_default();
                Some(format!("the real code panicked: {msg}"))
            }
        }
    }

    #[derive(Clone, Copy, Debug, PartialEq)]
    enum Op { Spawn(u8), Despawn(u8), Hide(u8), Show(u8), Mutate(u8), InsertExtra(u8), RemoveExtra(u8), StripSecret(u8), Tick }

    #[derive(Clone, Copy, Debug, PartialEq)]
    enum Policy { Blacklist, Whitelist }

    /// The harness's own record of one entity slot.
    #[derive(Clone, Copy, Default)]
    struct Slot { live: Option<Entity>, setting: Option<bool>, secret: Option<u16>, extra: Option<u16> }

    fn new_app(policy: Policy) -> App {
        let mut app = App::new();
        app.add_plugins((
            MinimalPlugins,
            RepliconPlugins.set(ServerPlugin {
                tick_policy: TickPolicy::EveryFrame,
                visibility_policy: match policy { Policy::Blacklist => VisibilityPolicy::Blacklist, Policy::Whitelist => VisibilityPolicy::Whitelist },
                ..Default::default()
            }),
        ))
        .replicate::<Secret>()
        .replicate::<Extra>()
        .finish();
        app
    }

    struct World3 { server: App, clients: [App; 2], policy: Policy, slots: [Slot; 2], ver: u16 }

    impl World3 {
        fn new(policy: Policy) -> Self {
            let mut server = new_app(policy);
            let mut clients = [new_app(policy), new_app(policy)];
            for c in &mut clients { server.connect_client(c); }
            Self { server, clients, policy, slots: [Slot::default(); 2], ver: 0 }
        }

        fn client_entity(&self, c: usize) -> Entity { **self.clients[c].world().resource::<TestClientEntity>() }

        fn default_visible(&self) -> bool { self.policy == Policy::Blacklist }

        /// Model: is slot `s` visible to client `c` (client 1 always has the policy default).
        fn visible(&self, c: usize, s: usize) -> bool {
            if c == 0 { self.slots[s].setting.unwrap_or(self.default_visible()) } else { self.default_visible() }
        }

        /// `false`: the operation does not apply in the current state (the sequence is skipped).
        fn apply(&mut self, op: Op) -> bool {
            match op {
                Op::Spawn(s) => {
                    let s = s as usize;
                    if self.slots[s].live.is_some() { return false; }
                    self.ver += 1;
                    let e = self.server.world_mut().spawn((Replicated, Secret(payload(s as u8, 0, self.ver)))).id();
                    self.slots[s] = Slot { live: Some(e), setting: None, secret: Some(self.ver), extra: None };
                }
                Op::Despawn(s) => {
                    let s = s as usize;
                    let Some(e) = self.slots[s].live else { return false; };
                    self.server.world_mut().despawn(e);
                    self.slots[s] = Slot::default();
                }
                Op::Hide(s) | Op::Show(s) => {
                    let visible = matches!(op, Op::Show(_));
                    let s = s as usize;
                    let Some(e) = self.slots[s].live else { return false; };
                    let ce = self.client_entity(0);
                    self.server.world_mut().get_mut::<ClientVisibility>(ce).expect("client 0 has a visibility component").set_visibility(e, visible);
                    self.slots[s].setting = Some(visible);
                }
                Op::Mutate(s) => {
                    let s = s as usize;
                    let Some(e) = self.slots[s].live else { return false; };
                    if self.slots[s].secret.is_none() { return false; }
                    self.ver += 1;
                    self.server.world_mut().get_mut::<Secret>(e).unwrap().0 = payload(s as u8, 0, self.ver);
                    self.slots[s].secret = Some(self.ver);
                }
                Op::InsertExtra(s) => {
                    let s = s as usize;
                    let Some(e) = self.slots[s].live else { return false; };
                    if self.slots[s].extra.is_some() { return false; }
                    self.ver += 1;
                    self.server.world_mut().entity_mut(e).insert(Extra(payload(s as u8, 1, self.ver)));
                    self.slots[s].extra = Some(self.ver);
                }
                Op::RemoveExtra(s) => {
                    let s = s as usize;
                    let Some(e) = self.slots[s].live else { return false; };
                    if self.slots[s].extra.is_none() { return false; }
                    self.server.world_mut().entity_mut(e).remove::<Extra>();
                    self.slots[s].extra = None;
                }
                Op::StripSecret(s) => {
                    let s = s as usize;
                    let Some(e) = self.slots[s].live else { return false; };
                    if self.slots[s].secret.is_none() { return false; }
                    self.server.world_mut().entity_mut(e).remove::<Secret>();
                    self.slots[s].secret = None;
                }
                Op::Tick => {}
            }
            true
        }

        /// One tick: server update, scan + deliver everything, client updates, deliver the acks. Returns a violation.
        fn tick(&mut self, step: usize) -> Option<String> {
            // Q: the visibility query reports the most recent setting of every live entity
            for c in 0..2 {
                let ce = self.client_entity(c);
                for s in 0..2 {
                    if let Some(e) = self.slots[s].live {
                        let got = self.server.world().get::<ClientVisibility>(ce).unwrap().is_visible(e);
                        if got != self.visible(c, s) {
                            return Some(format!("step {step}: is_visible(slot {s}) for client {c} = {got}, most recent setting says {}", self.visible(c, s)));
                        }
                    }
                }
            }
            self.server.update();
            // W: scan what the server handed to the transport, per client, then deliver it
            let ces = [self.client_entity(0), self.client_entity(1)];
            let mut sent: Vec<(usize, usize, Vec<u8>)> = Vec::new();
            for (entity, channel, message) in self.server.world_mut().resource_mut::<RepliconServer>().drain_sent() {
                let c = if entity == ces[0] { 0 } else { 1 };
                sent.push((c, channel, message.to_vec()));
            }
            for (c, channel, message) in &sent {
                for slot in slots_in(message) {
                    let s = slot as usize;
                    let hidden = self.slots[s].live.is_none() || !self.visible(*c, s);
                    if hidden {
                        return Some(format!("step {step}: a message on channel {channel} for client {c} carries component data of slot {s}, which is hidden from (or despawned for) that client at this tick"));
                    }
                }
            }
            for (c, channel, message) in sent {
                self.clients[c].world_mut().resource_mut::<RepliconClient>().insert_received(channel, message);
            }
            for c in 0..2 {
                self.clients[c].update();
                let ce = ces[c];
                let msgs: Vec<_> = self.clients[c].world_mut().resource_mut::<RepliconClient>().drain_sent().collect();
                let mut server = self.server.world_mut().resource_mut::<RepliconServer>();
                for (channel, message) in msgs { server.insert_received(ce, channel, message); }
            }
            // V: each client's world holds exactly the live entities visible to it, with the server's components and values
            for c in 0..2 {
                let mut expected = 0usize;
                for s in 0..2 {
                    let sl = self.slots[s];
                    let Some(e) = sl.live else { continue; };
                    if !self.visible(c, s) { continue; }
                    expected += 1;
                    let Some(&local) = self.clients[c].world().resource::<ServerEntityMap>().to_client().get(&e) else {
                        return Some(format!("step {step}: client {c} has no entity for visible slot {s} after the round trip (gaining visibility / spawning must deliver the whole entity)"));
                    };
                    let Ok(er) = self.clients[c].world().get_entity(local) else {
                        return Some(format!("step {step}: client {c}: mapped entity of slot {s} does not exist"));
                    };
                    let want_secret = sl.secret.map(|v| Secret(payload(s as u8, 0, v)));
                    if er.get::<Secret>().copied() != want_secret {
                        return Some(format!("step {step}: client {c} slot {s}: Secret = {:?}, server has {want_secret:?}", er.get::<Secret>()));
                    }
                    let want_extra = sl.extra.map(|v| Extra(payload(s as u8, 1, v)));
                    if er.get::<Extra>().copied() != want_extra {
                        return Some(format!("step {step}: client {c} slot {s}: Extra = {:?}, server has {want_extra:?}", er.get::<Extra>()));
                    }
                }
                let world = self.clients[c].world_mut();
                let have = world.query_filtered::<Entity, With<Replicated>>().iter(world).count();
                if have != expected {
                    return Some(format!("step {step}: client {c} holds {have} replicated entities, {expected} are live and visible to it (losing visibility / despawning must remove the entity; other clients must be unaffected)"));
                }
                let mapped = self.clients[c].world().resource::<ServerEntityMap>().to_client().len();
                if mapped != expected {
                    return Some(format!("step {step}: client {c} maps {mapped} server entities, {expected} are live and visible to it"));
                }
            }
            None
        }
    }

    /// Runs one sequence. `Err(())`: some operation did not apply (sequence skipped).
    fn run(policy: Policy, held: bool, ops: &[Op]) -> Result<Option<String>, ()> {
        let mut w = World3::new(policy);
        if held {
            // start from an entity both the server and (if visible) the clients already hold, acknowledged
            w.apply(Op::Spawn(0));
            if policy == Policy::Whitelist { w.apply(Op::Show(0)); }
            if let Some(why) = w.tick(0) { return Ok(Some(format!("[start state] {why}"))); }
            if let Some(why) = w.tick(0) { return Ok(Some(format!("[start state] {why}"))); }
        }
        for (step, op) in ops.iter().enumerate() {
            if !w.apply(*op) { return Err(()); }
            if *op == Op::Tick { if let Some(why) = w.tick(step) { return Ok(Some(why)); } }
        }
        // final delivery: twice, so that an acknowledged state is also looked at
        for extra in 0..2 { if let Some(why) = w.tick(ops.len() + extra) { return Ok(Some(format!("[closing tick {extra}] {why}"))); } }
        Ok(None)
    }

    /// Pure pre-check: does every operation apply (entity live / component present) when the sequence is run?
    fn applicable(held: bool, ops: &[Op]) -> bool {
        let mut live = [held, false];
        let mut extra = [false, false];
        let mut secret = [held, false];
        for op in ops {
            match *op {
                Op::Spawn(s) => { if live[s as usize] { return false; } live[s as usize] = true; extra[s as usize] = false; secret[s as usize] = true; }
                Op::Despawn(s) => { if !live[s as usize] { return false; } live[s as usize] = false; }
                Op::Hide(s) | Op::Show(s) => { if !live[s as usize] { return false; } }
                Op::Mutate(s) => { if !live[s as usize] || !secret[s as usize] { return false; } }
                Op::StripSecret(s) => { if !live[s as usize] || !secret[s as usize] { return false; } secret[s as usize] = false; }
                Op::InsertExtra(s) => { if !live[s as usize] || extra[s as usize] { return false; } extra[s as usize] = true; }
                Op::RemoveExtra(s) => { if !live[s as usize] || !extra[s as usize] { return false; } extra[s as usize] = false; }
                Op::Tick => {}
            }
        }
        true
    }

    fn show(ops: &[Op]) -> String { ops.iter().map(|o| format!("{o:?}").replace('(', "-").replace(')', "")).collect::<Vec<_>>().join(",") }
    fn parse(sv: &str) -> Vec<Op> {
        sv.split(',').filter(|t| !t.is_empty()).map(|t| {
            let (name, slot) = t.split_once('-').map(|(n, s)| (n, s.parse::<u8>().unwrap_or(0))).unwrap_or((t, 0));
            match name {
                "Spawn" => Op::Spawn(slot), "Despawn" => Op::Despawn(slot), "Hide" => Op::Hide(slot), "Show" => Op::Show(slot),
                "Mutate" => Op::Mutate(slot), "InsertExtra" => Op::InsertExtra(slot), "RemoveExtra" => Op::RemoveExtra(slot), "StripSecret" => Op::StripSecret(slot), _ => Op::Tick,
            }
        }).collect()
    }
    fn policy_name(p: Policy, held: bool) -> String { format!("{}+{}", if p == Policy::Blacklist { "blacklist" } else { "whitelist" }, if held { "held" } else { "empty" }) }

    #[test]
    fn verif_native_u06s() {
        if let Ok(fixed) = std::env::var("VERIF_OPS") {
            let pol = std::env::var("VERIF_POLICY").unwrap_or_default();
            let policy = if pol.starts_with("whitelist") { Policy::Whitelist } else { Policy::Blacklist };
            let held = pol.ends_with("held");
            let ops = parse(&fixed);
            if let Some(why) = guarded(|| run(policy, held, &ops).unwrap_or(Some(String::from("an operation of the sequence does not apply")))) {
                println!("VERIF-COUNTEREXAMPLE policy={} ops={} :: {why}", policy_name(policy, held), show(&ops));
                panic!("property violated on the real code: {why}");
            }
            return;
        }
        let depth: usize = std::env::var("VERIF_DEPTH").ok().and_then(|d| d.parse().ok()).unwrap_or(4);
        // (number of entity slots, depth): one slot is explored one step deeper than two
        let mut jobs: Vec<(Policy, bool, Vec<Op>)> = Vec::new();
        for (slots, maxlen) in [(1u8, depth + 1), (2u8, depth)] {
            let mut ops: Vec<Op> = Vec::new();
            for s in 0..slots { ops.extend([Op::Spawn(s), Op::Despawn(s), Op::Hide(s), Op::Show(s), Op::Mutate(s), Op::InsertExtra(s), Op::RemoveExtra(s), Op::StripSecret(s)]); }
            ops.push(Op::Tick);
            for len in 1..=maxlen {
                let mut idx = std::vec![0usize; len];
                loop {
                    let seq: Vec<Op> = idx.iter().map(|&k| ops[k]).collect();
                    // a trailing Tick is the same as the closing ticks of the shorter sequence; the two-slot pass only
                    // runs sequences that use slot 1 (the others are in the one-slot pass)
                    let uses_slot1 = seq.iter().any(|o| matches!(*o, Op::Spawn(1) | Op::Despawn(1) | Op::Hide(1) | Op::Show(1) | Op::Mutate(1) | Op::InsertExtra(1) | Op::RemoveExtra(1) | Op::StripSecret(1)));
                    let redundant = seq.last() == Some(&Op::Tick) || (slots == 2 && !uses_slot1);
                    if !redundant {
                        for policy in [Policy::Blacklist, Policy::Whitelist] {
                            for held in [false, true] {
                                if applicable(held, &seq) { jobs.push((policy, held, seq.clone())); }
                            }
                        }
                    }
                    let mut k = 0;
                    while k < len { idx[k] += 1; if idx[k] < ops.len() { break; } idx[k] = 0; k += 1; }
                    if k == len { break; }
                }
            }
        }
        // the sequences are independent (each builds its own three Apps): spread them over the cores; the reported
        // counterexample is the first one in enumeration order, so the result does not depend on scheduling
        let threads: usize = std::env::var("VERIF_THREADS").ok().and_then(|d| d.parse().ok())
            .unwrap_or_else(|| std::thread::available_parallelism().map(|n| n.get()).unwrap_or(4));
        let next = std::sync::atomic::AtomicUsize::new(0);
        let first_bad: std::sync::Mutex<Option<(usize, String)>> = std::sync::Mutex::new(None);
        std::thread::scope(|sc| {
            for _ in 0..threads {
                sc.spawn(|| loop {
                    let i = next.fetch_add(1, std::sync::atomic::Ordering::SeqCst);
                    if i >= jobs.len() { break; }
                    if first_bad.lock().unwrap().as_ref().is_some_and(|(j, _)| *j < i) { break; }
                    let (policy, held, seq) = &jobs[i];
                    if let Some(why) = guarded(|| run(*policy, *held, seq).unwrap_or(None)) {
                        let mut fb = first_bad.lock().unwrap();
                        if fb.as_ref().is_none_or(|(j, _)| i < *j) { *fb = Some((i, why)); }
                    }
                });
            }
        });
        let explored = jobs.len();
        if let Some((i, why)) = first_bad.into_inner().unwrap() {
            let (policy, held, seq) = &jobs[i];
            println!("VERIF-COUNTEREXAMPLE policy={} ops={} :: {why}", policy_name(*policy, *held), show(seq));
            panic!("property violated on the real code: {why}");
        }
        println!("VERIF-EXPLORED sequences={explored}");
    }
}
