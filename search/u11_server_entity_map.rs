// Counterexample SEARCH / bounded stand-in for unit u11 (not the deciding step): injected as a #[cfg(test)] module next to
// the real ServerEntityMap and run natively. Enumerates every operation sequence up to VERIF_DEPTH over three server and
// three client entities (two of them sharing an index with different generations) against a reference model: two plain
// maps that must stay exact inverses. Operations whose documented precondition does not hold are skipped.
#[cfg(test)]
mod verif_search {
    extern crate std;
    use super::*;
    use std::{collections::BTreeMap, format, string::String, vec::Vec, println};

    /// A panic inside the real code is a failure of the contract too: report it with the operation sequence.
    fn guarded<F: FnOnce() -> Option<String>>(f: F) -> Option<String> {
        match std::panic::catch_unwind(std::panic::AssertUnwindSafe(f)) {
            Ok(r) => r,
            Err(p) => {
                let msg = p.downcast_ref::<&str>().map(|s| String::from(*s)).or_else(|| p.downcast_ref::<String>().cloned()).unwrap_or_default();
                Some(format!("the real code panicked: {msg}"))
            }
        }
    }

    #[derive(Clone, Copy, Debug, PartialEq)]
    enum Op { Insert(usize, usize), SRemove(usize), CRemove(usize), SOrInsert(usize, usize), COrInsert(usize, usize), Clear }

    fn ent(side: u64, i: usize) -> Entity {
        // i = 0, 1: generation 1 of two indices; i = 2: generation 2 of the first index (a reused slot)
        let (index, generation) = match i { 0 => (1u64, 1u64), 1 => (2, 1), _ => (1, 2) };
        Entity::from_bits((generation << 32) | (index + 10 * side))
    }
    fn s(i: usize) -> Entity { ent(0, i) }
    fn c(i: usize) -> Entity { ent(1, i) }

    fn all_ops() -> Vec<Op> {
        let mut v = Vec::new();
        for a in 0..3 { for b in 0..3 { v.push(Op::Insert(a, b)); v.push(Op::SOrInsert(a, b)); v.push(Op::COrInsert(a, b)); } }
        for a in 0..3 { v.push(Op::SRemove(a)); v.push(Op::CRemove(a)); }
        v.push(Op::Clear);
        v
    }

    fn run(ops: &[Op]) -> Option<String> {
        let mut real = ServerEntityMap::default();
        let mut s2c: BTreeMap<usize, usize> = BTreeMap::new();
        let mut c2s: BTreeMap<usize, usize> = BTreeMap::new();
        for (step, op) in ops.iter().enumerate() {
            match *op {
                Op::Insert(a, b) => {
                    // precondition: the client entity is not mapped to another server entity
                    if c2s.get(&b).is_some_and(|&x| x != a) { continue; }
                    real.insert(s(a), c(b));
                    if let Some(old) = s2c.insert(a, b) { if old != b { c2s.remove(&old); } }
                    c2s.insert(b, a);
                }
                Op::SRemove(a) => {
                    let got = real.server_entry(s(a)).remove();
                    let want = s2c.remove(&a);
                    if let Some(b) = want { c2s.remove(&b); }
                    if got != want.map(c) { return Some(format!("step {step}: server_entry({a}).remove() = {got:?}, model {want:?}")); }
                }
                Op::CRemove(b) => {
                    let got = real.client_entry(c(b)).remove();
                    let want = c2s.remove(&b);
                    if let Some(a) = want { s2c.remove(&a); }
                    if got != want.map(s) { return Some(format!("step {step}: client_entry({b}).remove() = {got:?}, model {want:?}")); }
                }
                Op::SOrInsert(a, b) => {
                    // precondition for a vacant entry: the new client entity is not mapped yet
                    if !s2c.contains_key(&a) && c2s.contains_key(&b) { continue; }
                    let got = real.server_entry(s(a)).or_insert_with(|| c(b));
                    let want = *s2c.entry(a).or_insert(b);
                    c2s.insert(want, a);
                    if got != c(want) { return Some(format!("step {step}: server_entry({a}).or_insert_with = {got:?}, model {want}")); }
                }
                Op::COrInsert(b, a) => {
                    if !c2s.contains_key(&b) && s2c.contains_key(&a) { continue; }
                    let got = real.client_entry(c(b)).or_insert_with(|| s(a));
                    let want = *c2s.entry(b).or_insert(a);
                    s2c.insert(want, b);
                    if got != s(want) { return Some(format!("step {step}: client_entry({b}).or_insert_with = {got:?}, model {want}")); }
                }
                Op::Clear => { real.clear(); s2c.clear(); c2s.clear(); }
            }
            // the two directions agree with the model (and hence with each other) after every operation
            for a in 0..3 {
                let got = real.to_client().get(&s(a)).copied();
                if got != s2c.get(&a).map(|&b| c(b)) { return Some(format!("step {step} ({op:?}): to_client[{a}] = {got:?}, model {:?}", s2c.get(&a))); }
            }
            for b in 0..3 {
                let got = real.to_server().get(&c(b)).copied();
                if got != c2s.get(&b).map(|&a| s(a)) { return Some(format!("step {step} ({op:?}): to_server[{b}] = {got:?}, model {:?}", c2s.get(&b))); }
            }
            if real.to_client().len() != s2c.len() || real.to_server().len() != c2s.len() {
                return Some(format!("step {step} ({op:?}): map sizes {}/{} differ from the model {}/{}", real.to_client().len(), real.to_server().len(), s2c.len(), c2s.len()));
            }
        }
        None
    }

    fn show(ops: &[Op]) -> String { ops.iter().map(|o| format!("{o:?}").replace(", ", "_").replace(['(', ')'], "-")).collect::<Vec<_>>().join(",") }
    fn parse(sv: &str) -> Vec<Op> {
        sv.split(',').filter(|t| !t.is_empty()).map(|t| {
            let p: Vec<&str> = t.split('-').collect();
            let n: Vec<usize> = p.get(1).map(|x| x.split('_').filter_map(|y| y.parse().ok()).collect()).unwrap_or_default();
            match p[0] { "Insert" => Op::Insert(n[0], n[1]), "SRemove" => Op::SRemove(n[0]), "CRemove" => Op::CRemove(n[0]),
                "SOrInsert" => Op::SOrInsert(n[0], n[1]), "COrInsert" => Op::COrInsert(n[0], n[1]), _ => Op::Clear }
        }).collect()
    }

    #[test]
    fn verif_search_u11() {
        if let Ok(fixed) = std::env::var("VERIF_OPS") {
            let ops = parse(&fixed);
            if let Some(why) = guarded(|| run(&ops)) {
                println!("VERIF-COUNTEREXAMPLE policy=- ops={} :: {why}", show(&ops));
                panic!("contract violated on the real code: {why}");
            }
            return;
        }
        let depth: usize = std::env::var("VERIF_DEPTH").ok().and_then(|d| d.parse().ok()).unwrap_or(3);
        let ops = all_ops();
        for len in 0..=depth {
            let mut idx = std::vec![0usize; len];
            loop {
                let seq: Vec<Op> = idx.iter().map(|&k| ops[k]).collect();
                if let Some(why) = guarded(|| run(&seq)) {
                    println!("VERIF-COUNTEREXAMPLE policy=- ops={} :: {why}", show(&seq));
                    panic!("contract violated on the real code: {why}");
                }
                let mut k = 0;
                while k < len { idx[k] += 1; if idx[k] < ops.len() { break; } idx[k] = 0; k += 1; }
                if k == len { break; }
            }
        }
    }
}
