// BOUNDED native stand-in (unit u11s, runs on every check): the main clause of C03 - `Updates::send` (one update message
// per tick: mappings, despawns, removals, changes, in that order), the despawn / removal buffering of the `collect_*` systems
// and the client's `apply_update_message` / `apply_changes` / `apply_removals` / `apply_despawns` (Bevy systems over
// `&mut World`: outside both verifiers). A real server `App` and a real client `App`; the update channel is reliable and
// ordered, so the harness keeps the server's update messages in a queue and hands the client the next 0, 1 or all of them
// per client frame (mutate messages are delivered or withheld along with them - they never change structure). Every sequence
// up to VERIF_DEPTH over Spawn / Despawn / InsertExtra / RemoveExtra per entity slot, ServerTick (one server frame; the
// harness records the structure the server has replicated at that tick) and ClientFrame(0 | 1 | all). After EVERY client
// frame:
//   S  the client's replicated structure - which server entities it holds (through a consistent two-way entity map), the
//      replication marker on each, and which replicated components each one has - equals the recorded server structure at
//      the tick the client reports as its last update tick: never a partial tick, never a mixture of two ticks;
//   M  that tick never decreases.
#[cfg(test)]
mod verif_search_u {
    extern crate std;
    use super::*;
    use crate::{
        client::ServerUpdateTick,
        shared::{backend::channels::ServerChannel, server_entity_map::ServerEntityMap},
        test_app::{ServerTestAppExt, TestClientEntity},
    };
    use serde::{Deserialize, Serialize};
    use std::{format, println, string::String, vec::Vec};

    #[derive(Component, Serialize, Deserialize, Clone, Copy, PartialEq, Debug)]
    struct Base(u8);
    #[derive(Component, Serialize, Deserialize, Clone, Copy, PartialEq, Debug)]
    struct Extra(u8);

    fn guarded<F: FnOnce() -> Option<String>>(f: F) -> Option<String> {
        match std::panic::catch_unwind(std::panic::AssertUnwindSafe(f)) {
            Ok(r) => r,
            Err(p) => {
                let msg = p.downcast_ref::<&str>().map(|s| String::from(*s)).or_else(|| p.downcast_ref::<String>().cloned()).unwrap_or_default();
                Some(format!("the real code panicked: {msg}"))
            }
        }
    }

    #[derive(Clone, Copy, Debug, PartialEq)]
    enum Op { Spawn(u8), Despawn(u8), InsertExtra(u8), RemoveExtra(u8), ServerTick, ClientFrame(u8) }

    /// Structure of one server entity as replicated: (entity, has Extra). `Base` is always there.
    type Structure = Vec<(Entity, bool)>;

    fn new_app() -> App {
        let mut app = App::new();
        app.add_plugins((
            MinimalPlugins,
            RepliconPlugins.set(ServerPlugin { tick_policy: TickPolicy::EveryFrame, ..Default::default() }),
        ))
        .replicate::<Base>()
        .replicate::<Extra>()
        .finish();
        app
    }

    struct Sim {
        server: App, client: App, ce: Entity,
        slots: [Option<(Entity, bool)>; 2],
        /// update messages (with the mutate messages of the same tick) not yet handed to the client
        queue: Vec<Vec<(usize, Vec<u8>)>>,
        /// recorded server structure per tick at which an update message was sent
        history: Vec<(u32, Structure)>,
        last_reported: u32,
    }

    impl Sim {
        fn new() -> Self {
            let mut server = new_app();
            let mut client = new_app();
            server.connect_client(&mut client);
            let ce = **client.world().resource::<TestClientEntity>();
            let start = client.world().resource::<ServerUpdateTick>().get();
            Self { server, client, ce, slots: [None, None], queue: Vec::new(), history: std::vec![(start, Vec::new())], last_reported: start }
        }

        fn structure(&self) -> Structure { self.slots.iter().flatten().copied().collect() }

        fn apply(&mut self, op: Op, step: usize) -> Option<String> {
            match op {
                Op::Spawn(s) => { let e = self.server.world_mut().spawn((Replicated, Base(s))).id(); self.slots[s as usize] = Some((e, false)); }
                Op::Despawn(s) => { let (e, _) = self.slots[s as usize].take().unwrap(); self.server.world_mut().despawn(e); }
                Op::InsertExtra(s) => { let sl = self.slots[s as usize].as_mut().unwrap(); sl.1 = true; let e = sl.0; self.server.world_mut().entity_mut(e).insert(Extra(s)); }
                Op::RemoveExtra(s) => { let sl = self.slots[s as usize].as_mut().unwrap(); sl.1 = false; let e = sl.0; self.server.world_mut().entity_mut(e).remove::<Extra>(); }
                Op::ServerTick => {
                    self.server.update();
                    let tick = self.server.world().resource::<ServerTick>().get();
                    let sent: Vec<(usize, Vec<u8>)> = self.server.world_mut().resource_mut::<RepliconServer>().drain_sent()
                        .filter(|(c, ..)| *c == self.ce).map(|(_, ch, m)| (ch, m.to_vec())).collect();
                    let updates_channel: usize = ServerChannel::Updates.into();
                    if sent.iter().any(|(ch, _)| *ch == updates_channel) {
                        self.history.push((tick, self.structure()));
                        self.queue.push(sent);
                    } else if self.history.last().map(|h| &h.1) != Some(&self.structure()) {
                        return Some(format!("step {step}: the replicated structure changed in server tick {tick} but no update message was sent"));
                    }
                }
                Op::ClientFrame(k) => {
                    let n = match k { 0 => 0, 1 => 1.min(self.queue.len()), _ => self.queue.len() };
                    for batch in self.queue.drain(..n) {
                        for (ch, m) in batch { self.client.world_mut().resource_mut::<RepliconClient>().insert_received(ch, m); }
                    }
                    self.client.update();
                    // acknowledgements and the like go back at once
                    self.server.exchange_with_client(&mut self.client);
                    return self.check(step);
                }
            }
            None
        }

        fn check(&mut self, step: usize) -> Option<String> {
            let reported = self.client.world().resource::<ServerUpdateTick>().get();
            if reported < self.last_reported { return Some(format!("step {step}: the client's last update tick went back from {} to {reported}", self.last_reported)); }
            self.last_reported = reported;
            let Some((_, want)) = self.history.iter().find(|(t, _)| *t == reported) else {
                return Some(format!("step {step}: the client reports last update tick {reported}, at which the server sent no update message (ticks with one: {:?})", self.history.iter().map(|h| h.0).collect::<Vec<_>>()));
            };
            let map = self.client.world().resource::<ServerEntityMap>();
            if map.to_client().len() != want.len() || map.to_server().len() != want.len() {
                return Some(format!("step {step}: at its last update tick {reported} the server had replicated {} entities, the client's entity map holds {} / {} (to_client / to_server)", want.len(), map.to_client().len(), map.to_server().len()));
            }
            for (e, has_extra) in want {
                let Some(&local) = map.to_client().get(e) else { return Some(format!("step {step}: server entity {e} is part of the structure at tick {reported} but is not in the client's map")); };
                if map.to_server().get(&local) != Some(e) { return Some(format!("step {step}: the two directions of the client's entity map disagree for {e}")); }
                let Ok(er) = self.client.world().get_entity(local) else { return Some(format!("step {step}: mapped client entity {local} does not exist")); };
                if !er.contains::<Replicated>() { return Some(format!("step {step}: client entity for {e} lacks the replication marker")); }
                if !er.contains::<Base>() { return Some(format!("step {step}: client entity for {e} lacks its component at tick {reported}")); }
                if er.contains::<Extra>() != *has_extra {
                    return Some(format!("step {step}: at tick {reported} the server entity {e} {} the second component, the client's copy {} - a partial tick or a mixture of two ticks",
                                        if *has_extra { "had" } else { "did not have" }, if er.contains::<Extra>() { "has it" } else { "does not" }));
                }
            }
            let world = self.client.world_mut();
            let have = world.query_filtered::<Entity, With<Replicated>>().iter(world).count();
            if have != want.len() { return Some(format!("step {step}: the client holds {have} replicated entities, the structure at its last update tick {reported} has {}", want.len())); }
            None
        }
    }

    fn run(ops: &[Op]) -> Option<String> {
        let mut s = Sim::new();
        for (step, op) in ops.iter().enumerate() { if let Some(why) = s.apply(*op, step) { return Some(why); } }
        // closing: one more server tick, then the client catches up one message at a time, then all
        for (k, op) in [Op::ServerTick, Op::ClientFrame(1), Op::ClientFrame(1), Op::ClientFrame(2)].into_iter().enumerate() {
            if let Some(why) = s.apply(op, ops.len() + k) { return Some(format!("[closing {op:?}] {why}")); }
        }
        if s.last_reported != s.history.last().unwrap().0 { return Some(format!("closing: everything was delivered but the client reports tick {} instead of {}", s.last_reported, s.history.last().unwrap().0)); }
        None
    }

    fn applicable(ops: &[Op]) -> bool {
        let mut live = [false, false];
        let mut extra = [false, false];
        for op in ops {
            match *op {
                Op::Spawn(s) => { if live[s as usize] { return false; } live[s as usize] = true; extra[s as usize] = false; }
                Op::Despawn(s) => { if !live[s as usize] { return false; } live[s as usize] = false; }
                Op::InsertExtra(s) => { if !live[s as usize] || extra[s as usize] { return false; } extra[s as usize] = true; }
                Op::RemoveExtra(s) => { if !live[s as usize] || !extra[s as usize] { return false; } extra[s as usize] = false; }
                _ => {}
            }
        }
        true
    }

    fn show(ops: &[Op]) -> String { ops.iter().map(|o| format!("{o:?}").replace('(', "-").replace(')', "")).collect::<Vec<_>>().join(",") }
    fn parse(sv: &str) -> Vec<Op> {
        sv.split(',').filter(|t| !t.is_empty()).map(|t| {
            let (name, k) = t.split_once('-').map(|(n, s)| (n, s.parse::<u8>().unwrap_or(0))).unwrap_or((t, 0));
            match name { "Spawn" => Op::Spawn(k), "Despawn" => Op::Despawn(k), "InsertExtra" => Op::InsertExtra(k), "RemoveExtra" => Op::RemoveExtra(k), "ClientFrame" => Op::ClientFrame(k), _ => Op::ServerTick }
        }).collect()
    }

    #[test]
    fn verif_native_u11s() {
        if let Ok(fixed) = std::env::var("VERIF_OPS") {
            let ops = parse(&fixed);
            if let Some(why) = guarded(|| run(&ops)) {
                println!("VERIF-COUNTEREXAMPLE policy=- ops={} :: {why}", show(&ops));
                panic!("property violated on the real code: {why}");
            }
            return;
        }
        let depth: usize = std::env::var("VERIF_DEPTH").ok().and_then(|d| d.parse().ok()).unwrap_or(5);
        let mut ops: Vec<Op> = Vec::new();
        for s in 0..2u8 { ops.extend([Op::Spawn(s), Op::Despawn(s), Op::InsertExtra(s), Op::RemoveExtra(s)]); }
        ops.extend([Op::ServerTick, Op::ClientFrame(0), Op::ClientFrame(1), Op::ClientFrame(2)]);
        let mut jobs: Vec<Vec<Op>> = Vec::new();
        for len in 0..=depth {
            let mut idx = std::vec![0usize; len];
            loop {
                let seq: Vec<Op> = idx.iter().map(|&k| ops[k]).collect();
                // a client frame before anything was sent, or right after another one that took everything, adds nothing
                let redundant = seq.windows(2).any(|w| matches!(w[0], Op::ClientFrame(_)) && matches!(w[1], Op::ClientFrame(0)))
                    || matches!(seq.first(), Some(Op::ClientFrame(_)));
                if !redundant && applicable(&seq) { jobs.push(seq); }
                let mut k = 0;
                while k < len { idx[k] += 1; if idx[k] < ops.len() { break; } idx[k] = 0; k += 1; }
                if k == len { break; }
            }
        }
        let threads: usize = std::thread::available_parallelism().map(|n| n.get()).unwrap_or(4);
        let next = std::sync::atomic::AtomicUsize::new(0);
        let first_bad: std::sync::Mutex<Option<(usize, String)>> = std::sync::Mutex::new(None);
        std::thread::scope(|sc| {
            for _ in 0..threads {
                sc.spawn(|| loop {
                    let i = next.fetch_add(1, std::sync::atomic::Ordering::SeqCst);
                    if i >= jobs.len() { break; }
                    if first_bad.lock().unwrap().as_ref().is_some_and(|(j, _)| *j < i) { break; }
                    if let Some(why) = guarded(|| run(&jobs[i])) {
                        let mut fb = first_bad.lock().unwrap();
                        if fb.as_ref().is_none_or(|(j, _)| i < *j) { *fb = Some((i, why)); }
                    }
                });
            }
        });
        if let Some((i, why)) = first_bad.into_inner().unwrap() {
            println!("VERIF-COUNTEREXAMPLE policy=- ops={} :: {why}", show(&jobs[i]));
            panic!("property violated on the real code: {why}");
        }
        println!("VERIF-EXPLORED sequences={}", jobs.len());
    }
}
