// BOUNDED native stand-in (unit u13s, runs on every check): the cross-frame half of C13 for the client-to-server
// direction - `client::event::{send, resend_locally, reset}` with their run conditions, `ClientEvent::{send_typed,
// resend_locally_typed, reset_typed}` (type-erased `PtrMut` plumbing over Bevy's double-buffered `Events<E>`: outside both
// verifiers). ONE real `App` with the full plugin set (client and server side, default protocol check) is driven through
// every sequence up to VERIF_DEPTH over
//   Status(Disconnected | Connecting | Connected)   what a messaging backend would set on `RepliconClient`
//   EmitEvent | EmitTrigger                         the local game sends a client event / a client trigger (unique id)
//   Frame                                           `App::update`
// and three closing frames. Observed: what the app hands to the transport (`RepliconClient::drain_sent`, payloads carry
// the id) and what server-side logic sees locally (`FromClient<E>` events and triggers with their sender identity).
//   X  every emitted event is handled through at most one path in total - never both on the network and locally, never
//      twice, also across frames and across a change of connection status;
//   L  emitted while the app is singleplayer / listen server (client Disconnected) => observed locally exactly once, with
//      the SERVER identity, and never on the network;
//   N  emitted while Connected (and the connection was not established in that very frame) => on the network exactly once;
//   Q  nothing is put on the network in a frame in which the client is not Connected;
//   P  no frame panics.
// Server-to-client direction (same app; `Run` starts / stops the local server - only while the client is Disconnected, the
// supported listen-server configuration - and gives it one remote authorized client): EmitToClients(Broadcast |
// BroadcastExcept(SERVER) | Direct(SERVER)).
//   T  emitted while the app is server or singleplayer => observed locally exactly once precisely when the local server is
//      among the recipients (Broadcast, Direct(SERVER)), never twice, also across frames;
//   U  handed to the transport for the remote client at most once, and only while the server is running and the client is
//      among the recipients.
#[cfg(test)]
mod verif_search_e {
    extern crate std;
    use super::*;
    use serde::{Deserialize, Serialize};
    use std::{format, println, string::String, vec::Vec};

    #[derive(Event, Serialize, Deserialize, Clone, Copy, Debug)]
    struct Ping([u8; 8]);
    #[derive(Event, Serialize, Deserialize, Clone, Copy, Debug)]
    struct Poke([u8; 8]);
    #[derive(Event, Serialize, Deserialize, Clone, Copy, Debug)]
    struct Pong([u8; 8]);

    fn payload(kind: u8, id: u16) -> [u8; 8] { [0xD1, 0x5E, 0, kind, id as u8, (id >> 8) as u8, 0xC0, 0xDE] }
    fn ids_in(bytes: &[u8]) -> Vec<u16> {
        bytes.windows(8).filter(|w| w[0] == 0xD1 && w[1] == 0x5E && w[6] == 0xC0 && w[7] == 0xDE).map(|w| w[4] as u16 | (w[5] as u16) << 8).collect()
    }
    fn id_of(p: &[u8; 8]) -> u16 { p[4] as u16 | (p[5] as u16) << 8 }

    /// What server-side logic observed locally: (id, sender).
    #[derive(Resource, Default)]
    struct Seen(Vec<(u16, Entity)>);
    /// Server events observed by the local game (ids).
    #[derive(Resource, Default)]
    struct SeenPong(Vec<u16>);
    fn see_pongs(mut seen: ResMut<SeenPong>, mut pongs: EventReader<Pong>) { for e in pongs.read() { seen.0.push(id_of(&e.0)); } }

    fn see_events(mut seen: ResMut<Seen>, mut pings: EventReader<FromClient<Ping>>) {
        for e in pings.read() { seen.0.push((id_of(&e.event.0), e.client)); }
    }
    fn see_triggers(t: Trigger<FromClient<Poke>>, mut seen: ResMut<Seen>) { seen.0.push((id_of(&t.event.0), t.client)); }

    fn guarded<F: FnOnce() -> Option<String>>(f: F) -> Option<String> {
        match std::panic::catch_unwind(std::panic::AssertUnwindSafe(f)) {
            Ok(r) => r,
            Err(p) => {
                let msg = p.downcast_ref::<&str>().map(|s| String::from(*s)).or_else(|| p.downcast_ref::<String>().cloned()).unwrap_or_default();
                Some(format!("the real code panicked: {msg}"))
            }
        }
    }

    #[derive(Clone, Copy, Debug, PartialEq)]
    enum St { Disconnected, Connecting, Connected }
    #[derive(Clone, Copy, Debug, PartialEq)]
    enum Op { Status(St), EmitEvent, EmitTrigger, Frame, Run(bool), EmitToClients(u8) }

    /// What is promised for an event, decided in the frame that first processes it.
    #[derive(Clone, Copy, Debug, PartialEq)]
    enum Promise { Undecided, LocalOnce, NetOnce, AtMostOnce }

    struct Emitted { id: u16, promise: Promise, net: usize, local: usize }
    /// A server event: mode 0 Broadcast, 1 BroadcastExcept(SERVER), 2 Direct(SERVER); `decided`: (local expected or None = at most once, remote expected)
    struct ToSent { id: u16, mode: u8, decided: Option<(Option<usize>, usize)>, net: usize, local: usize }

    fn run(ops: &[Op]) -> Option<String> {
        let mut app = App::new();
        app.add_plugins((MinimalPlugins, RepliconPlugins.set(ServerPlugin { tick_policy: TickPolicy::EveryFrame, ..Default::default() })))
            .add_client_event::<Ping>(Channel::Ordered)
            .add_client_trigger::<Poke>(Channel::Ordered)
            .add_server_event::<Pong>(Channel::Ordered)
            .init_resource::<Seen>()
            .init_resource::<SeenPong>()
            .add_systems(Update, (see_events, see_pongs))
            .add_observer(see_triggers)
            .finish();
        let mut status = St::Disconnected;
        let mut was_connected = false; // status in the previous frame
        let mut events: Vec<Emitted> = Vec::new();
        let mut running = false;
        let mut remote: Option<Entity> = None;
        let mut to_clients: Vec<ToSent> = Vec::new();
        let mut next_id = 1u16;
        let total = ops.len() + 3;
        for step in 0..total {
            let op = if step < ops.len() { ops[step] } else { Op::Frame };
            match op {
                Op::Status(s) => {
                    status = s;
                    app.world_mut().resource_mut::<RepliconClient>().set_status(match s {
                        St::Disconnected => RepliconClientStatus::Disconnected, St::Connecting => RepliconClientStatus::Connecting, St::Connected => RepliconClientStatus::Connected });
                }
                Op::Run(on) => {
                    running = on;
                    app.world_mut().resource_mut::<RepliconServer>().set_running(on);
                    remote = if on { Some(app.world_mut().spawn((ConnectedClient { max_size: 1200 }, AuthorizedClient)).id()) } else { None };
                }
                Op::EmitToClients(mode) => {
                    let m = match mode { 0 => SendMode::Broadcast, 1 => SendMode::BroadcastExcept(SERVER), _ => SendMode::Direct(SERVER) };
                    app.world_mut().send_event(ToClients { mode: m, event: Pong(payload(2, next_id)) });
                    to_clients.push(ToSent { id: next_id, mode, decided: None, net: 0, local: 0 });
                    next_id += 1;
                }
                Op::EmitEvent => { app.world_mut().send_event(Ping(payload(0, next_id))); events.push(Emitted { id: next_id, promise: Promise::Undecided, net: 0, local: 0 }); next_id += 1; }
                Op::EmitTrigger => { app.world_mut().client_trigger(Poke(payload(1, next_id))); events.push(Emitted { id: next_id, promise: Promise::Undecided, net: 0, local: 0 }); next_id += 1; }
                Op::Frame => {
                    for e in events.iter_mut().filter(|e| e.promise == Promise::Undecided) {
                        e.promise = match status {
                            St::Disconnected => Promise::LocalOnce,
                            St::Connected if was_connected => Promise::NetOnce,
                            _ => Promise::AtMostOnce, // connecting, or the frame in which the session starts (events are reset)
                        };
                    }
                    for t in to_clients.iter_mut().filter(|t| t.decided.is_none()) {
                        t.decided = Some(if status == St::Disconnected {
                            (Some(if t.mode == 1 { 0 } else { 1 }), if running && t.mode != 2 { 1 } else { 0 })
                        } else { (None, usize::MAX) }); // emitted while the app is a (connecting / connected) client: only 'never twice' is promised
                    }
                    app.update();
                    let server_sent: Vec<Vec<u8>> = app.world_mut().resource_mut::<RepliconServer>().drain_sent().filter(|(c, ..)| Some(*c) == remote).map(|(.., m)| m.to_vec()).collect();
                    for m in &server_sent { for id in ids_in(m) { if let Some(t) = to_clients.iter_mut().find(|t| t.id == id) { t.net += 1; } } }
                    for id in core::mem::take(&mut app.world_mut().resource_mut::<SeenPong>().0) { if let Some(t) = to_clients.iter_mut().find(|t| t.id == id) { t.local += 1; } }
                    for t in &to_clients {
                        let Some((want_local, want_net)) = t.decided else { continue; };
                        if t.local > want_local.unwrap_or(1) {
                            return Some(format!("step {step}: server event {} (mode {}) was observed locally {} time(s), the local server is {}among its recipients", t.id, ["Broadcast", "BroadcastExcept(SERVER)", "Direct(SERVER)"][t.mode as usize], t.local, if want_local == Some(0) { "not " } else { "" }));
                        }
                        if t.net > want_net.min(1) {
                            return Some(format!("step {step}: server event {} (mode {}) was handed to the transport {} time(s) for the remote client, expected at most {}", t.id, ["Broadcast", "BroadcastExcept(SERVER)", "Direct(SERVER)"][t.mode as usize], t.net, want_net.min(1)));
                        }
                    }
                    let sent: Vec<Vec<u8>> = app.world_mut().resource_mut::<RepliconClient>().drain_sent().map(|(_, m)| m.to_vec()).collect();
                    if status != St::Connected && !sent.is_empty() {
                        return Some(format!("step {step}: {} message(s) were put on the network in a frame in which the client is {status:?}", sent.len()));
                    }
                    for m in &sent { for id in ids_in(m) { if let Some(e) = events.iter_mut().find(|e| e.id == id) { e.net += 1; } } }
                    for (id, who) in core::mem::take(&mut app.world_mut().resource_mut::<Seen>().0) {
                        if who != SERVER { return Some(format!("step {step}: event {id} was observed locally with sender {who}, not with the local-server identity")); }
                        if let Some(e) = events.iter_mut().find(|e| e.id == id) { e.local += 1; }
                    }
                    for e in &events {
                        if e.net + e.local > 1 {
                            return Some(format!("step {step}: event {} was handled {} time(s) on the network and {} time(s) locally - every event must go through exactly one path, also across frames and a change of connection status",
                                                e.id, e.net, e.local));
                        }
                        if e.promise == Promise::LocalOnce && e.net > 0 { return Some(format!("step {step}: event {} was emitted in singleplayer / listen-server mode but went to the network", e.id)); }
                        if e.promise == Promise::NetOnce && e.local > 0 { return Some(format!("step {step}: event {} was emitted while connected but was re-emitted locally", e.id)); }
                    }
                    was_connected = status == St::Connected;
                }
            }
        }
        for t in &to_clients {
            if let Some((Some(want_local), want_net)) = t.decided {
                if t.local != want_local { return Some(format!("closing: server event {} (mode {}) was observed locally {} time(s), expected exactly {want_local}", t.id, ["Broadcast", "BroadcastExcept(SERVER)", "Direct(SERVER)"][t.mode as usize], t.local)); }
                if t.net != want_net && running { return Some(format!("closing: server event {} (mode {}) was handed to the transport {} time(s) for the remote client, expected {want_net}", t.id, ["Broadcast", "BroadcastExcept(SERVER)", "Direct(SERVER)"][t.mode as usize], t.net)); }
            }
        }
        for e in &events {
            // only events that went through three closing frames have to be settled
            match e.promise {
                Promise::LocalOnce if e.local != 1 => return Some(format!("closing: event {} was emitted in singleplayer / listen-server mode and observed locally {} time(s), expected exactly once", e.id, e.local)),
                Promise::NetOnce if e.net != 1 => return Some(format!("closing: event {} was emitted while connected and sent {} time(s), expected exactly once", e.id, e.net)),
                _ => {}
            }
        }
        None
    }

    fn show(ops: &[Op]) -> String { ops.iter().map(|o| match o { Op::Status(s) => format!("{s:?}"), Op::Run(b) => String::from(if *b { "RunOn" } else { "RunOff" }), Op::EmitToClients(m) => format!("EmitToClients{m}"), o => format!("{o:?}") }).collect::<Vec<_>>().join(",") }
    /// The supported configurations: the local server runs only while the client is Disconnected.
    fn applicable(ops: &[Op]) -> bool {
        let (mut status, mut running) = (St::Disconnected, false);
        for op in ops {
            match *op {
                Op::Status(s) => { if running && s != St::Disconnected { return false; } status = s; }
                Op::Run(on) => { if on == running || (on && status != St::Disconnected) { return false; } running = on; }
                _ => {}
            }
        }
        true
    }
    fn parse(sv: &str) -> Vec<Op> {
        sv.split(',').filter(|t| !t.is_empty()).map(|t| match t {
            "Disconnected" => Op::Status(St::Disconnected), "Connecting" => Op::Status(St::Connecting), "Connected" => Op::Status(St::Connected),
            "EmitEvent" => Op::EmitEvent, "EmitTrigger" => Op::EmitTrigger, "RunOn" => Op::Run(true), "RunOff" => Op::Run(false),
            "EmitToClients0" => Op::EmitToClients(0), "EmitToClients1" => Op::EmitToClients(1), "EmitToClients2" => Op::EmitToClients(2), _ => Op::Frame,
        }).collect()
    }

    #[test]
    fn verif_native_u13s() {
        if let Ok(fixed) = std::env::var("VERIF_OPS") {
            let ops = parse(&fixed);
            if let Some(why) = guarded(|| run(&ops)) {
                println!("VERIF-COUNTEREXAMPLE policy=- ops={} :: {why}", show(&ops));
                panic!("property violated on the real code: {why}");
            }
            return;
        }
        std::panic::set_hook(std::boxed::Box::new(|_| {})); // panics of the code under test are reported by this harness
        let depth: usize = std::env::var("VERIF_DEPTH").ok().and_then(|d| d.parse().ok()).unwrap_or(5);
        let all_ops = [Op::Status(St::Disconnected), Op::Status(St::Connecting), Op::Status(St::Connected), Op::EmitEvent, Op::EmitTrigger, Op::Frame,
                       Op::Run(true), Op::Run(false), Op::EmitToClients(0), Op::EmitToClients(1), Op::EmitToClients(2)];
        let mut jobs: Vec<Vec<Op>> = Vec::new();
        // pass 1: the client-to-server alphabet (first six operations) one step deeper; pass 2: the whole alphabet, only the
        // sequences that use the local server or a server event
        for (nops, maxlen, need_new) in [(6usize, depth + 1, false), (all_ops.len(), depth, true)] {
            let ops = &all_ops[..nops];
            for len in 0..=maxlen {
                let mut idx = std::vec![0usize; len];
                loop {
                    let seq: Vec<Op> = idx.iter().map(|&k| ops[k]).collect();
                    // two status changes in a row are one status change; a trailing Frame is covered by the closing frames
                    let redundant = seq.windows(2).any(|w| matches!(w[0], Op::Status(_)) && matches!(w[1], Op::Status(_))) || seq.last() == Some(&Op::Frame)
                        || (need_new && !seq.iter().any(|o| matches!(o, Op::Run(_) | Op::EmitToClients(_))));
                    if !redundant && applicable(&seq) { jobs.push(seq); }
                    let mut k = 0;
                    while k < len { idx[k] += 1; if idx[k] < ops.len() { break; } idx[k] = 0; k += 1; }
                    if k == len { break; }
                }
            }
        }
        let threads: usize = std::thread::available_parallelism().map(|n| n.get()).unwrap_or(4);
        let next = std::sync::atomic::AtomicUsize::new(0);
        let first_bad: std::sync::Mutex<Option<(usize, String)>> = std::sync::Mutex::new(None);
        std::thread::scope(|sc| {
            for _ in 0..threads {
                sc.spawn(|| loop {
                    let i = next.fetch_add(1, std::sync::atomic::Ordering::SeqCst);
                    if i >= jobs.len() { break; }
                    if first_bad.lock().unwrap().as_ref().is_some_and(|(j, _)| *j < i) { break; }
                    if let Some(why) = guarded(|| run(&jobs[i])) {
                        let mut fb = first_bad.lock().unwrap();
                        if fb.as_ref().is_none_or(|(j, _)| i < *j) { *fb = Some((i, why)); }
                    }
                });
            }
        });
        if let Some((i, why)) = first_bad.into_inner().unwrap() {
            println!("VERIF-COUNTEREXAMPLE policy=- ops={} :: {why}", show(&jobs[i]));
            panic!("property violated on the real code: {why}");
        }
        println!("VERIF-EXPLORED sequences={}", jobs.len());
    }
}
