// BOUNDED native stand-in (unit u13s, runs on every check): the cross-frame half of C13 for the client-to-server
// direction - `client::event::{send, resend_locally, reset}` with their run conditions, `ClientEvent::{send_typed,
// resend_locally_typed, reset_typed}` (type-erased `PtrMut` plumbing over Bevy's double-buffered `Events<E>`: outside both
// verifiers). ONE real `App` with the full plugin set (client and server side, default protocol check) is driven through
// every sequence up to VERIF_DEPTH over
//   Status(Disconnected | Connecting | Connected)   what a messaging backend would set on `RepliconClient`
//   EmitEvent | EmitTrigger                         the local game sends a client event / a client trigger (unique id)
//   Frame                                           `App::update`
// and three closing frames. Observed: what the app hands to the transport (`RepliconClient::drain_sent`, payloads carry
// the id) and what server-side logic sees locally (`FromClient<E>` events and triggers with their sender identity).
//   X  every emitted event is handled through at most one path in total - never both on the network and locally, never
//      twice, also across frames and across a change of connection status;
//   L  emitted while the app is singleplayer / listen server (client Disconnected) => observed locally exactly once, with
//      the SERVER identity, and never on the network;
//   N  emitted while Connected (and the connection was not established in that very frame) => on the network exactly once;
//   Q  nothing is put on the network in a frame in which the client is not Connected;
//   P  no frame panics.
#[cfg(test)]
mod verif_search_e {
    extern crate std;
    use super::*;
    use serde::{Deserialize, Serialize};
    use std::{format, println, string::String, vec::Vec};

    #[derive(Event, Serialize, Deserialize, Clone, Copy, Debug)]
    struct Ping([u8; 8]);
    #[derive(Event, Serialize, Deserialize, Clone, Copy, Debug)]
    struct Poke([u8; 8]);

    fn payload(kind: u8, id: u16) -> [u8; 8] { [0xD1, 0x5E, 0, kind, id as u8, (id >> 8) as u8, 0xC0, 0xDE] }
    fn ids_in(bytes: &[u8]) -> Vec<u16> {
        bytes.windows(8).filter(|w| w[0] == 0xD1 && w[1] == 0x5E && w[6] == 0xC0 && w[7] == 0xDE).map(|w| w[4] as u16 | (w[5] as u16) << 8).collect()
    }
    fn id_of(p: &[u8; 8]) -> u16 { p[4] as u16 | (p[5] as u16) << 8 }

    /// What server-side logic observed locally: (id, sender).
    #[derive(Resource, Default)]
    struct Seen(Vec<(u16, Entity)>);

    fn see_events(mut seen: ResMut<Seen>, mut pings: EventReader<FromClient<Ping>>) {
        for e in pings.read() { seen.0.push((id_of(&e.event.0), e.client)); }
    }
    fn see_triggers(t: Trigger<FromClient<Poke>>, mut seen: ResMut<Seen>) { seen.0.push((id_of(&t.event.0), t.client)); }

    fn guarded<F: FnOnce() -> Option<String>>(f: F) -> Option<String> {
        match std::panic::catch_unwind(std::panic::AssertUnwindSafe(f)) {
            Ok(r) => r,
            Err(p) => {
                let msg = p.downcast_ref::<&str>().map(|s| String::from(*s)).or_else(|| p.downcast_ref::<String>().cloned()).unwrap_or_default();
                Some(format!("the real code panicked: {msg}"))
            }
        }
    }

    #[derive(Clone, Copy, Debug, PartialEq)]
    enum St { Disconnected, Connecting, Connected }
    #[derive(Clone, Copy, Debug, PartialEq)]
    enum Op { Status(St), EmitEvent, EmitTrigger, Frame }

    /// What is promised for an event, decided in the frame that first processes it.
    #[derive(Clone, Copy, Debug, PartialEq)]
    enum Promise { Undecided, LocalOnce, NetOnce, AtMostOnce }

    struct Emitted { id: u16, promise: Promise, net: usize, local: usize }

    fn run(ops: &[Op]) -> Option<String> {
        let mut app = App::new();
        app.add_plugins((MinimalPlugins, RepliconPlugins))
            .add_client_event::<Ping>(Channel::Ordered)
            .add_client_trigger::<Poke>(Channel::Ordered)
            .init_resource::<Seen>()
            .add_systems(Update, see_events)
            .add_observer(see_triggers)
            .finish();
        let mut status = St::Disconnected;
        let mut was_connected = false; // status in the previous frame
        let mut events: Vec<Emitted> = Vec::new();
        let mut next_id = 1u16;
        let total = ops.len() + 3;
        for step in 0..total {
            let op = if step < ops.len() { ops[step] } else { Op::Frame };
            match op {
                Op::Status(s) => {
                    status = s;
                    app.world_mut().resource_mut::<RepliconClient>().set_status(match s {
                        St::Disconnected => RepliconClientStatus::Disconnected, St::Connecting => RepliconClientStatus::Connecting, St::Connected => RepliconClientStatus::Connected });
                }
                Op::EmitEvent => { app.world_mut().send_event(Ping(payload(0, next_id))); events.push(Emitted { id: next_id, promise: Promise::Undecided, net: 0, local: 0 }); next_id += 1; }
                Op::EmitTrigger => { app.world_mut().client_trigger(Poke(payload(1, next_id))); events.push(Emitted { id: next_id, promise: Promise::Undecided, net: 0, local: 0 }); next_id += 1; }
                Op::Frame => {
                    for e in events.iter_mut().filter(|e| e.promise == Promise::Undecided) {
                        e.promise = match status {
                            St::Disconnected => Promise::LocalOnce,
                            St::Connected if was_connected => Promise::NetOnce,
                            _ => Promise::AtMostOnce, // connecting, or the frame in which the session starts (events are reset)
                        };
                    }
                    app.update();
                    let sent: Vec<Vec<u8>> = app.world_mut().resource_mut::<RepliconClient>().drain_sent().map(|(_, m)| m.to_vec()).collect();
                    if status != St::Connected && !sent.is_empty() {
                        return Some(format!("step {step}: {} message(s) were put on the network in a frame in which the client is {status:?}", sent.len()));
                    }
                    for m in &sent { for id in ids_in(m) { if let Some(e) = events.iter_mut().find(|e| e.id == id) { e.net += 1; } } }
                    for (id, who) in core::mem::take(&mut app.world_mut().resource_mut::<Seen>().0) {
                        if who != SERVER { return Some(format!("step {step}: event {id} was observed locally with sender {who}, not with the local-server identity")); }
                        if let Some(e) = events.iter_mut().find(|e| e.id == id) { e.local += 1; }
                    }
                    for e in &events {
                        if e.net + e.local > 1 {
                            return Some(format!("step {step}: event {} was handled {} time(s) on the network and {} time(s) locally - every event must go through exactly one path, also across frames and a change of connection status",
                                                e.id, e.net, e.local));
                        }
                        if e.promise == Promise::LocalOnce && e.net > 0 { return Some(format!("step {step}: event {} was emitted in singleplayer / listen-server mode but went to the network", e.id)); }
                        if e.promise == Promise::NetOnce && e.local > 0 { return Some(format!("step {step}: event {} was emitted while connected but was re-emitted locally", e.id)); }
                    }
                    was_connected = status == St::Connected;
                }
            }
        }
        for e in &events {
            // only events that went through three closing frames have to be settled
            match e.promise {
                Promise::LocalOnce if e.local != 1 => return Some(format!("closing: event {} was emitted in singleplayer / listen-server mode and observed locally {} time(s), expected exactly once", e.id, e.local)),
                Promise::NetOnce if e.net != 1 => return Some(format!("closing: event {} was emitted while connected and sent {} time(s), expected exactly once", e.id, e.net)),
                _ => {}
            }
        }
        None
    }

    fn show(ops: &[Op]) -> String { ops.iter().map(|o| match o { Op::Status(s) => format!("{s:?}"), o => format!("{o:?}") }).collect::<Vec<_>>().join(",") }
    fn parse(sv: &str) -> Vec<Op> {
        sv.split(',').filter(|t| !t.is_empty()).map(|t| match t {
            "Disconnected" => Op::Status(St::Disconnected), "Connecting" => Op::Status(St::Connecting), "Connected" => Op::Status(St::Connected),
            "EmitEvent" => Op::EmitEvent, "EmitTrigger" => Op::EmitTrigger, _ => Op::Frame,
        }).collect()
    }

    #[test]
    fn verif_native_u13s() {
        if let Ok(fixed) = std::env::var("VERIF_OPS") {
            let ops = parse(&fixed);
            if let Some(why) = guarded(|| run(&ops)) {
                println!("VERIF-COUNTEREXAMPLE policy=- ops={} :: {why}", show(&ops));
                panic!("property violated on the real code: {why}");
            }
            return;
        }
        std::panic::set_hook(std::boxed::Box::new(|_| {})); // panics of the code under test are reported by this harness
        let depth: usize = std::env::var("VERIF_DEPTH").ok().and_then(|d| d.parse().ok()).unwrap_or(6);
        let ops = [Op::Status(St::Disconnected), Op::Status(St::Connecting), Op::Status(St::Connected), Op::EmitEvent, Op::EmitTrigger, Op::Frame];
        let mut jobs: Vec<Vec<Op>> = Vec::new();
        for len in 0..=depth {
            let mut idx = std::vec![0usize; len];
            loop {
                let seq: Vec<Op> = idx.iter().map(|&k| ops[k]).collect();
                // two status changes in a row are one status change; a trailing Frame is covered by the closing frames
                let redundant = seq.windows(2).any(|w| matches!(w[0], Op::Status(_)) && matches!(w[1], Op::Status(_))) || seq.last() == Some(&Op::Frame);
                if !redundant { jobs.push(seq); }
                let mut k = 0;
                while k < len { idx[k] += 1; if idx[k] < ops.len() { break; } idx[k] = 0; k += 1; }
                if k == len { break; }
            }
        }
        let threads: usize = std::thread::available_parallelism().map(|n| n.get()).unwrap_or(4);
        let next = std::sync::atomic::AtomicUsize::new(0);
        let first_bad: std::sync::Mutex<Option<(usize, String)>> = std::sync::Mutex::new(None);
        std::thread::scope(|sc| {
            for _ in 0..threads {
                sc.spawn(|| loop {
                    let i = next.fetch_add(1, std::sync::atomic::Ordering::SeqCst);
                    if i >= jobs.len() { break; }
                    if first_bad.lock().unwrap().as_ref().is_some_and(|(j, _)| *j < i) { break; }
                    if let Some(why) = guarded(|| run(&jobs[i])) {
                        let mut fb = first_bad.lock().unwrap();
                        if fb.as_ref().is_none_or(|(j, _)| i < *j) { *fb = Some((i, why)); }
                    }
                });
            }
        });
        if let Some((i, why)) = first_bad.into_inner().unwrap() {
            println!("VERIF-COUNTEREXAMPLE policy=- ops={} :: {why}", show(&jobs[i]));
            panic!("property violated on the real code: {why}");
        }
        println!("VERIF-EXPLORED sequences={}", jobs.len());
    }
}
