// BOUNDED native stand-in (unit u03s, runs on every check): the end-to-end clause of C12 - with per-tick mutate-message
// tracking enabled, `Mutations::send` stamps every mutate message of a tick with the number of messages of that tick and
// the client (`buffer_mutate_message`, `apply_mutate_messages`: Bevy systems over `&mut World`) confirms the tick in
// `ServerMutateTicks` and sends `MutateTickReceived`. A real server `App` and a real client `App`; three entities whose
// mutations need one message each (small `max_size`), so a tick produces 1..3 mutate messages (unacknowledged mutations of
// earlier ticks are re-sent, which the harness takes from the wire: it counts the messages the server actually sent). Every sequence up to
// VERIF_DEPTH of steps, each step = (which entities are mutated: none | 0 | 0,1 | 0,1,2) x (what happens to this tick's
// mutate messages: all delivered | all held back | only the first delivered, rest held | all but the first delivered,
// first held | last one lost, rest delivered), or Flush (everything held back is delivered, newest first), followed by a
// closing Flush. A step may also spawn an entity, so that the tick has an update message which its mutate messages must
// wait for; that update message is delivered at once or held back (reliable and ordered: held update messages are always
// delivered before later ones). The harness counts what the server sent per tick and what
// reached the client. After every client frame:
//   E  every `MutateTickReceived { tick }` names a tick of which ALL messages have reached the client (and whose update
//      message has arrived), and no tick is notified twice;
//   C  a tick whose last missing message arrived in this frame is notified in this frame (exactly once);
//   Q  `ServerMutateTicks::contains(tick)` is true exactly for the ticks of which all messages have arrived.
// In addition, boundary scenarios for the encoded count: one tick with exactly n mutate messages for n at the varint and
// 16-bit boundaries (1, 127..129, 16 383, 16 384, 65 535..65 537) - reported exactly once, and
// only after the last message.
#[cfg(test)]
mod verif_search_t {
    extern crate std;
    use super::*;
    use crate::{
        client::server_mutate_ticks::{MutateTickReceived, ServerMutateTicks},
        shared::{backend::channels::ServerChannel, replication::track_mutate_messages::TrackAppExt},
        test_app::{ServerTestAppExt, TestClientEntity},
    };
    use serde::{Deserialize, Serialize};
    use std::{format, println, string::String, vec::Vec};

    #[derive(Component, Serialize, Deserialize, Clone, PartialEq, Debug)]
    struct Blob(Vec<u8>);

    fn guarded<F: FnOnce() -> Option<String>>(f: F) -> Option<String> {
        match std::panic::catch_unwind(std::panic::AssertUnwindSafe(f)) {
            Ok(r) => r,
            Err(p) => {
                let msg = p.downcast_ref::<&str>().map(|s| String::from(*s)).or_else(|| p.downcast_ref::<String>().cloned()).unwrap_or_default();
                Some(format!("the real code panicked: {msg}"))
            }
        }
    }

    #[derive(Clone, Copy, Debug, PartialEq)]
    enum Fate { All, Hold, FirstOnly, AllButFirst, LoseLast }
    #[derive(Clone, Copy, Debug, PartialEq)]
    enum Op { Step(u8, Fate, u8), Flush }

    fn new_app() -> App {
        let mut app = App::new();
        app.add_plugins((
            MinimalPlugins,
            RepliconPlugins.set(ServerPlugin { tick_policy: TickPolicy::EveryFrame, ..Default::default() }),
        ))
        .track_mutate_messages()
        .replicate::<Blob>()
        .finish();
        app
    }

    #[derive(Clone, Copy)]
    struct TickRec { tick: u32, sent: usize, arrived: usize, notified: usize, /// index into the update-message sequence this tick's mutate messages wait for
        needs_update: usize }

    struct Sim { server: App, client: App, ce: Entity, ents: Vec<Entity>, ver: u8, held: Vec<(u32, Vec<u8>)>, ticks: Vec<TickRec>,
                 /// update messages sent / delivered so far, and those held back (in order)
                 updates_sent: usize, updates_delivered: usize, held_updates: Vec<Vec<(usize, Vec<u8>)>> }

    impl Sim {
        fn new() -> Self {
            let mut server = new_app();
            let mut client = new_app();
            server.connect_client(&mut client);
            let ce = **client.world().resource::<TestClientEntity>();
            let ents: Vec<Entity> = (0..3u8).map(|i| server.world_mut().spawn((Replicated, Blob(std::vec![i; 70]))).id()).collect();
            for _ in 0..2 {
                server.update();
                server.exchange_with_client(&mut client);
                client.update();
                server.exchange_with_client(&mut client);
            }
            server.world_mut().get_mut::<ConnectedClient>(ce).unwrap().max_size = 100;
            client.world_mut().resource_mut::<Events<MutateTickReceived>>().clear();
            Self { server, client, ce, ents, ver: 10, held: Vec::new(), ticks: Vec::new(), updates_sent: 0, updates_delivered: 0, held_updates: Vec::new() }
        }

        fn rec(&mut self, tick: u32) -> &mut TickRec { self.ticks.iter_mut().find(|t| t.tick == tick).expect("harness: message of an unknown tick") }

        /// Delivers `msgs` (mutate messages with their tick), runs one client frame, returns the acks and checks E, C, Q.
        fn client_frame(&mut self, updates: Vec<Vec<(usize, Vec<u8>)>>, msgs: Vec<(u32, Vec<u8>)>, step: usize) -> Option<String> {
            let mutations_channel: usize = ServerChannel::Mutations.into();
            let done_before: Vec<u32> = self.ticks.iter().filter(|r| r.arrived == r.sent && r.needs_update <= self.updates_delivered).map(|r| r.tick).collect();
            for batch in updates {
                self.updates_delivered += 1;
                for (ch, m) in batch { self.client.world_mut().resource_mut::<RepliconClient>().insert_received(ch, m); }
            }
            for (tick, m) in msgs {
                self.client.world_mut().resource_mut::<RepliconClient>().insert_received(mutations_channel, m);
                self.rec(tick).arrived += 1;
            }
            let delivered = self.updates_delivered;
            let completed: Vec<u32> = self.ticks.iter().filter(|r| r.arrived == r.sent && r.needs_update <= delivered && !done_before.contains(&r.tick)).map(|r| r.tick).collect();
            self.client.update();
            self.server.exchange_with_client(&mut self.client);
            let events: Vec<u32> = self.client.world_mut().resource_mut::<Events<MutateTickReceived>>().drain().map(|e| e.tick.get()).collect();
            for t in &events {
                let Some(r) = self.ticks.iter_mut().find(|r| r.tick == *t) else { continue; }; // ticks before the scenario
                r.notified += 1;
                if r.arrived < r.sent {
                    return Some(format!("step {step}: tick {t} was reported as fully received after {} of its {} mutate messages", r.arrived, r.sent));
                }
                if r.needs_update > delivered {
                    return Some(format!("step {step}: tick {t} was reported as fully received although its mutate messages still wait for an update message"));
                }
                if r.notified > 1 { return Some(format!("step {step}: tick {t} was reported as fully received {} times", r.notified)); }
            }
            for t in completed {
                if !events.contains(&t) {
                    let r = *self.rec(t);
                    return Some(format!("step {step}: the last missing mutate message of tick {t} arrived in this frame ({} of {}), but the tick was not reported", r.arrived, r.sent));
                }
            }
            let tracker = self.client.world().resource::<ServerMutateTicks>();
            for r in &self.ticks {
                let got = tracker.contains(RepliconTick::new(r.tick));
                let newest = self.ticks.last().map(|l| l.tick).unwrap_or(r.tick);
                if newest - r.tick >= 60 { continue; } // outside the 64-tick window everything counts as received
                if got != (r.arrived == r.sent && r.needs_update <= delivered) {
                    return Some(format!("step {step}: ServerMutateTicks::contains({}) = {got}, but {} of its {} messages have arrived", r.tick, r.arrived, r.sent));
                }
            }
            None
        }

        fn step(&mut self, count: u8, fate: Fate, structural: u8, step: usize) -> Option<String> {
            if structural > 0 { self.server.world_mut().spawn((Replicated, Blob(std::vec![0xEE; 4]))); }
            for i in 0..count as usize {
                self.ver = self.ver.wrapping_add(1);
                let v = self.ver;
                *self.server.world_mut().get_mut::<Blob>(self.ents[i]).unwrap() = Blob(std::vec![v; 70]);
            }
            self.server.update();
            let tick = self.server.world().resource::<ServerTick>().get();
            let mutations_channel: usize = ServerChannel::Mutations.into();
            let mut updates = Vec::new();
            let mut muts: Vec<(u32, Vec<u8>)> = Vec::new();
            for (c, ch, m) in self.server.world_mut().resource_mut::<RepliconServer>().drain_sent() {
                if c != self.ce { continue; }
                if ch == mutations_channel { muts.push((tick, m.to_vec())); } else { updates.push((ch, m.to_vec())); }
            }
            if muts.is_empty() { return Some(format!("step {step}: tracking is on but the server sent no mutate message for tick {tick}")); }
            if !updates.is_empty() { self.updates_sent += 1; }
            self.ticks.push(TickRec { tick, sent: muts.len(), arrived: 0, notified: 0, needs_update: self.updates_sent });
            // reliable and ordered: an update message goes out now only if it is not to be held and nothing older is held
            let mut updates_now: Vec<Vec<(usize, Vec<u8>)>> = Vec::new();
            if !updates.is_empty() {
                self.held_updates.push(updates);
                if structural != 2 { updates_now = core::mem::take(&mut self.held_updates); }
            }
            let n = muts.len();
            let (now, later): (Vec<_>, Vec<_>) = match fate {
                Fate::All => (muts, Vec::new()),
                Fate::Hold => (Vec::new(), muts),
                Fate::FirstOnly => { let rest = muts.split_off(1); (muts, rest) }
                Fate::AllButFirst => { let rest = muts.split_off(1); (rest, muts) }
                Fate::LoseLast => { muts.truncate(n - 1); (muts, Vec::new()) }
            };
            self.held.extend(later);
            self.client_frame(updates_now, now, step)
        }

        fn flush(&mut self, step: usize) -> Option<String> {
            let mut held = core::mem::take(&mut self.held);
            held.reverse();
            let updates = core::mem::take(&mut self.held_updates);
            self.client_frame(updates, held, step)
        }
    }

    fn run(ops: &[Op]) -> Option<String> {
        let mut s = Sim::new();
        for (step, op) in ops.iter().enumerate() {
            let r = match *op { Op::Step(c, f, u) => s.step(c, f, u, step), Op::Flush => s.flush(step) };
            if r.is_some() { return r; }
        }
        s.flush(ops.len()).map(|w| format!("[closing flush] {w}"))
    }

    /// Boundary scenario for the per-tick message count: one tick with exactly `n` mutate messages (n entities, `max_size` 1),
    /// all delivered in one client frame: exactly one notification for that tick, and `contains` afterwards.
    fn run_big(n: usize) -> Option<String> {
        let mut server = new_app();
        let mut client = new_app();
        server.connect_client(&mut client);
        let ce = **client.world().resource::<TestClientEntity>();
        let ents: Vec<Entity> = server.world_mut().spawn_batch((0..n).map(|_| (Replicated, Blob(std::vec![1u8])))).collect();
        for _ in 0..2 {
            server.update();
            server.exchange_with_client(&mut client);
            client.update();
            server.exchange_with_client(&mut client);
        }
        server.world_mut().get_mut::<ConnectedClient>(ce).unwrap().max_size = 1;
        client.world_mut().resource_mut::<Events<MutateTickReceived>>().clear();
        for e in &ents { *server.world_mut().get_mut::<Blob>(*e).unwrap() = Blob(std::vec![2u8]); }
        server.update();
        let tick = server.world().resource::<ServerTick>().get();
        let mutations_channel: usize = ServerChannel::Mutations.into();
        let msgs: Vec<Vec<u8>> = server.world_mut().resource_mut::<RepliconServer>().drain_sent().filter(|(c, ch, _)| *c == ce && *ch == mutations_channel).map(|(.., m)| m.to_vec()).collect();
        if msgs.len() != n { return Some(format!("harness expectation: {n} entities with max_size 1 gave {} mutate messages", msgs.len())); }
        // all but the last message first: the tick must not be reported yet
        let last = msgs.len() - 1;
        for m in &msgs[..last] { client.world_mut().resource_mut::<RepliconClient>().insert_received(mutations_channel, m.clone()); }
        client.update();
        let early = client.world_mut().resource_mut::<Events<MutateTickReceived>>().drain().filter(|e| e.tick.get() == tick).count();
        if early != 0 && n > 1 { return Some(format!("tick {tick} has {n} mutate messages; it was reported as fully received after {last} of them")); }
        client.world_mut().resource_mut::<RepliconClient>().insert_received(mutations_channel, msgs[last].clone());
        client.update();
        let fired = client.world_mut().resource_mut::<Events<MutateTickReceived>>().drain().filter(|e| e.tick.get() == tick).count();
        if fired + early != 1 { return Some(format!("tick {tick} has {n} mutate messages, all delivered; it was reported {} time(s)", fired + early)); }
        if !client.world().resource::<ServerMutateTicks>().contains(RepliconTick::new(tick)) { return Some(format!("all {n} messages of tick {tick} arrived but contains({tick}) is false")); }
        None
    }

    fn show(ops: &[Op]) -> String { ops.iter().map(|o| match o { Op::Step(c, f, u) => format!("Step{c}{f:?}{}", ["", "+Spawn", "+SpawnHeld"][*u as usize]), Op::Flush => String::from("Flush") }).collect::<Vec<_>>().join(",") }
    fn parse(sv: &str) -> Vec<Op> {
        sv.split(',').filter(|t| !t.is_empty()).map(|t| {
            if t == "Flush" { return Op::Flush; }
            let c = t.as_bytes().get(4).map(|b| b - b'0').unwrap_or(0);
            let (t, u) = if let Some(x) = t.strip_suffix("+SpawnHeld") { (x, 2) } else if let Some(x) = t.strip_suffix("+Spawn") { (x, 1) } else { (t, 0) };
            let f = match &t[5.min(t.len())..] { "Hold" => Fate::Hold, "FirstOnly" => Fate::FirstOnly, "AllButFirst" => Fate::AllButFirst, "LoseLast" => Fate::LoseLast, _ => Fate::All };
            Op::Step(c, f, u)
        }).collect()
    }

    #[test]
    fn verif_native_u03s() {
        if let Ok(fixed) = std::env::var("VERIF_OPS") {
            if let Some(n) = fixed.strip_prefix("Big-").and_then(|n| n.parse::<usize>().ok()) {
                if let Some(why) = guarded(|| run_big(n)) {
                    println!("VERIF-COUNTEREXAMPLE policy=- ops=Big-{n} :: {why}");
                    panic!("property violated on the real code: {why}");
                }
                return;
            }
            let ops = parse(&fixed);
            if let Some(why) = guarded(|| run(&ops)) {
                println!("VERIF-COUNTEREXAMPLE policy=- ops={} :: {why}", show(&ops));
                panic!("property violated on the real code: {why}");
            }
            return;
        }
        let depth: usize = std::env::var("VERIF_DEPTH").ok().and_then(|d| d.parse().ok()).unwrap_or(3);
        let mut ops: Vec<Op> = Vec::new();
        for c in 0..=3u8 {
            for f in [Fate::All, Fate::Hold, Fate::FirstOnly, Fate::AllButFirst, Fate::LoseLast] {
                // with a single message FirstOnly = All, AllButFirst = Hold
                if c <= 1 && matches!(f, Fate::FirstOnly | Fate::AllButFirst) { continue; }
                ops.push(Op::Step(c, f, 0));
            }
        }
        // ticks that also carry an update message (a spawn), delivered at once or held back
        for c in 1..=2u8 { for f in [Fate::All, Fate::FirstOnly, Fate::Hold] { if c == 1 && f == Fate::FirstOnly { continue; } for u in 1..=2u8 { ops.push(Op::Step(c, f, u)); } } }
        ops.push(Op::Flush);
        let mut jobs: Vec<Vec<Op>> = Vec::new();
        for len in 0..=depth {
            let mut idx = std::vec![0usize; len];
            loop {
                let seq: Vec<Op> = idx.iter().map(|&k| ops[k]).collect();
                if seq.last() != Some(&Op::Flush) { jobs.push(seq); }
                let mut k = 0;
                while k < len { idx[k] += 1; if idx[k] < ops.len() { break; } idx[k] = 0; k += 1; }
                if k == len { break; }
            }
        }
        let threads: usize = std::thread::available_parallelism().map(|n| n.get()).unwrap_or(4);
        let next = std::sync::atomic::AtomicUsize::new(0);
        let first_bad: std::sync::Mutex<Option<(usize, String)>> = std::sync::Mutex::new(None);
        std::thread::scope(|sc| {
            for _ in 0..threads {
                sc.spawn(|| loop {
                    let i = next.fetch_add(1, std::sync::atomic::Ordering::SeqCst);
                    if i >= jobs.len() { break; }
                    if first_bad.lock().unwrap().as_ref().is_some_and(|(j, _)| *j < i) { break; }
                    if let Some(why) = guarded(|| run(&jobs[i])) {
                        let mut fb = first_bad.lock().unwrap();
                        if fb.as_ref().is_none_or(|(j, _)| i < *j) { *fb = Some((i, why)); }
                    }
                });
            }
        });
        if let Some((i, why)) = first_bad.into_inner().unwrap() {
            println!("VERIF-COUNTEREXAMPLE policy=- ops={} :: {why}", show(&jobs[i]));
            panic!("property violated on the real code: {why}");
        }
        // the encoding boundaries of the per-tick message count (1-, 2-, 3-byte varint; 16-bit range)
        let bigs: std::vec::Vec<usize> = std::vec![1, 127, 128, 129, 16383, 16384, 65535, 65536, 65537];
        let big_bad: std::sync::Mutex<Option<(usize, String)>> = std::sync::Mutex::new(None);
        std::thread::scope(|sc| {
            for &n in &bigs {
                let big_bad = &big_bad;
                sc.spawn(move || {
                    if let Some(why) = guarded(|| run_big(n)) {
                        let mut b = big_bad.lock().unwrap();
                        if b.as_ref().is_none_or(|(m, _)| n < *m) { *b = Some((n, why)); }
                    }
                });
            }
        });
        if let Some((n, why)) = big_bad.into_inner().unwrap() {
            println!("VERIF-COUNTEREXAMPLE policy=- ops=Big-{n} :: {why}");
            panic!("property violated on the real code: {why}");
        }
        println!("VERIF-EXPLORED sequences={}", jobs.len() + bigs.len());
    }
}
