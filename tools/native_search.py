"""Counterexample search / replay for Verus units: a bounded native enumeration on the REAL code.

This is not the deciding step (Verus is); it only tries to turn a failed obligation into a concrete failing
operation sequence that can be replayed. The search module (search/<unit>.rs) is appended to the unit's source
file in a scratch copy of /repo and run with the repository's own toolchain (`cargo test`).
"""
from __future__ import annotations
import re
from common import *


def _run_test(unit, srch, env_extra, tag):
    with Scratch(tag) as sc:
        f = sc.repo / unit.get("package_dir", "") / srch["file"]
        if not f.exists():
            return None, "search target file missing", ""
        with open(f, "a") as fh:
            fh.write("\n\n// ---- injected by /verif: native counterexample search ----\n")
            fh.write((VERIF / srch["sidecar"]).read_text())
        cmd = ["cargo", "test", "--offline", "-p", srch.get("package", "bevy_replicon"), "--lib", srch["test"], "--",
               "--nocapture", "--test-threads", "1"]
        env = {"CARGO_TARGET_DIR": str(REPLAY_TARGET)}
        env.update(env_extra)
        rc, out, err, wall = run(cmd, cwd=sc.repo, env=env, timeout=3600)
        return rc, out + "\n" + err, " ".join(f"{k}={v}" for k, v in env_extra.items()) + " " + " ".join(cmd)


def search(unit, srch, r):
    depth = srch.get("depth_thorough", srch.get("depth", 5)) if os.environ.get("VERIF_TIER") == "thorough" else srch.get("depth", 5)
    env = {"VERIF_DEPTH": str(depth)}
    env.update(srch.get("focus", {}).get(r["function"], {}))
    rc, txt, cmd = _run_test(unit, srch, env, "search-" + unit["name"])
    if rc is None:
        return {"search_note": txt}
    m = re.search(r"VERIF-COUNTEREXAMPLE policy=(\S+) ops=(\S*) :: (.*)", txt)
    if not m:
        if "test result: ok" in txt and re.search(r"test result: ok\. [1-9]\d* passed", txt):
            return {"search_note": f"bounded native search (depth {srch.get('depth', 5)}) found no failing sequence"}
        return {"search_note": "native search did not run: " + txt[-1500:]}
    return {
        "reproduced": True,
        "inputs": {"policy": m.group(1), "ops": m.group(2).split(",") if m.group(2) else []},
        "observed": m.group(3),
        "native_test": {"env": {"VERIF_POLICY": m.group(1), "VERIF_OPS": m.group(2)}, "test": srch["test"]},
        "native_run": {"cmd": cmd, "output": "\n".join(l for l in txt.splitlines() if "VERIF-COUNTEREXAMPLE" in l or "panicked" in l or "test result" in l)[:3000],
                       "what": "operation sequence executed natively on the real code next to an executable reference model "
                               "written from the property; the panic is the real structure disagreeing with the model"},
        "note": "Verus gives no counterexample; this failing input was found by bounded native search on the real code "
                "(the search is not the deciding step).",
    }


def replay(unit, rec):
    srch = unit.get("search")
    if not srch:
        return False, "unit has no native search"
    rc, txt, cmd = _run_test(unit, srch, rec["native_test"]["env"], "replay-" + unit["name"])
    if rc is None:
        return False, txt
    ok = rc != 0 and "VERIF-COUNTEREXAMPLE" in txt
    return ok, "\n".join(l for l in txt.splitlines() if "VERIF-COUNTEREXAMPLE" in l or "panicked" in l or "test result" in l)
