"""Locate named items of a /repo source file (anchors are names, never line numbers)."""
from __future__ import annotations
import rustitems as R
from common import Undecided


class Source:
    def __init__(self, path):
        self.path = path
        self.src = open(path).read()
        try:
            self.toks = R.tokenize(self.src)
            self.items = R.parse_items(self.src, toks=self.toks)
        except R.LexError as e:
            raise Undecided(f"cannot tokenize {path}: {e}")

    def sub_items(self, item):
        if not item.body:
            return []
        return R.parse_items(self.src, item.body[0] + 1, item.body[1], toks=self.toks)

    def item(self, kind, name, required=True):
        r = [it for it in self.items if it.kind == kind and it.name == name]
        if len(r) != 1:
            if not required and not r:
                return None
            raise Undecided(f"lost anchor: {len(r)} items `{kind} {name}` in {self.path}")
        return r[0]

    def fn(self, spec: str):
        """spec: `free_fn` | `Type::method` | `Trait for Type::method` | `Trait<u32> for Type::method`."""
        if "::" in spec:
            impl_name, fname = spec.rsplit("::", 1)
            impls = [it for it in self.items if it.kind == "impl" and it.name == impl_name]
            found = []
            for im in impls:
                for s in self.sub_items(im):
                    if s.kind == "fn" and s.name == fname:
                        found.append((im, s))
            if len(found) != 1:
                raise Undecided(f"lost anchor: {len(found)} functions `{spec}` in {self.path}")
            return found[0][1]
        return self.item("fn", spec)

    def line(self, offset):
        return self.src[:offset].count("\n") + 1
