from __future__ import annotations
import json, os, sys, time, shutil, re, hashlib
from pathlib import Path
from common import *
import kani_unit as K
import verus_unit as V
import native_unit as NU

PROPS = None


def properties():
    global PROPS
    if PROPS is None:
        PROPS = {}
        for l in (VERIF / "properties.jsonl").read_text().splitlines():
            if l.strip():
                p = json.loads(l)
                PROPS[p["id"]] = p
    return PROPS


def units_for(prop):
    return [u for u in load_units().values() if prop in u.get("properties", [])]


# ------------------------------------------------------------------------------------------------ check

def check(prop, tier, seed):
    t0 = time.time()
    if prop not in properties():
        log(f"unknown property {prop}"); return 2
    units = units_for(prop)
    if not units:
        log(f"{prop}: no unit serves this property (see MANIFEST.json not_applicable)"); return 2
    man = manifest_entry(prop)
    level = man["level_claimed"]["category"] if man else "proof"
    results = []
    notes = []
    replays = []
    try:
        vunits = [u for u in units if u["tool"] == "verus"]
        kunits = [u for u in units if u["tool"] == "kani"]
        nunits = [u for u in units if u["tool"] == "native"]
        standins = []
        for u in vunits:
            try:
                results += V.run_verus_unit(u, tier, prop)
            except Undecided as e:
                si = V.bounded_standin(prop, u, e)
                if si is None:
                    # The verifier could not process this unit and its stand-in search found nothing: the unit stays
                    # UNDECIDED (exit 2 at best), but the other units of the property still run - a refutation by one
                    # of them (e.g. the bounded native unit on the same function) is a violation in its own right.
                    log(f"[verus] {u['name']}: UNDECIDED by the verifier ({str(e).splitlines()[0][:200]}); continuing with the other units")
                    results.append({"unit": u["name"], "tool": "verus", "backend": "verus/z3", "harness": None,
                                    "function": f"unit {u['name']}", "location": None, "clause": "", "kind": "complete",
                                    "status": "undecided", "reason": str(e)[:600], "checks_total": 0, "checks_passed": 0,
                                    "failed_checks": [], "time_s": 0, "solver_s": 0})
                    continue
                log(f"[verus] {u['name']}: UNDECIDED by the verifier ({str(e).splitlines()[0][:160]}); "
                    f"bounded stand-in (native search on the real code) found a failing sequence")
                standins.append(si)
        if kunits:
            with Scratch(prop + "-" + tier) as sc:
                results += K.run_kani(kunits, tier, prop, sc)
                for r in results:
                    if r["tool"] == "kani" and r["status"] == "failed":
                        r["_rp"] = kani_replay(prop, r, next(u for u in kunits if u["name"] == r["unit"]), sc)
        for r in results:
            if r["tool"] == "verus" and r["status"] == "failed":
                r["_rp"] = V.verus_replay(prop, r, next(u for u in vunits if u["name"] == r["unit"]))
        for r, rec in standins:
            r["_rp"] = rec
            results.append(r)
        for u in nunits:
            for r in NU.run_native_unit(u, tier):
                results.append(r)
                if r["status"] == "failed":
                    d = REPLAY / prop
                    d.mkdir(parents=True, exist_ok=True)
                    path = d / f"{u['name']}.json"
                    rec = {"property": prop, "obligation": r["harness"], "function": r["function"], "unit": u["name"],
                           "tool": "native", "clause": r["clause"], "failed_checks": r["failed_checks"], "path": str(path),
                           "repo_head": git_head(REPO), "repo_dirty": git_dirty(REPO), "replay_cmd": f"./vf replay {path}"}
                    rec.update(r.pop("_found"))
                    path.write_text(json.dumps(rec, indent=1))
                    r["_rp"] = rec
    except Undecided as e:
        log(f"UNDECIDED property={prop}: {e}")
        write_evidence(prop, tier, seed, level, results, units, time.time() - t0, undecided=str(e))
        return 2
    # verdict
    known = [k for k in load_known_findings() if k.get("property") == prop and k.get("status") == "open"]
    violations, known_hits = [], []
    for r in [r for r in results if r["status"] == "failed"]:
        rp = r.get("_rp") or {"path": "(no replay file)", "reproduced": False}
        k = match_known(r, known)
        if k:
            known_hits.append((r, k))
        else:
            violations.append((r, rp))
    undec = [r for r in results if r["status"] == "undecided"]
    for r in results:
        tag = {"verified": "ok  ", "failed": "FAIL", "undecided": "????"}[r["status"]]
        b = " [bounded: %s]" % r["bound"] if r.get("kind") == "bounded" else ""
        log(f"  {tag} {r['tool']:5} {r['unit']:28} {r.get('harness') or r['function']:44} "
            f"{r.get('checks_passed', 0)}/{r.get('checks_total', 0)} checks {r.get('time_s', 0):.1f}s{b} {r.get('reason', '')}")
    wall = time.time() - t0
    write_evidence(prop, tier, seed, level, results, units, wall, violations=len(violations),
                   known=[k["what"] for _, k in known_hits])
    for r, k in known_hits:
        log(f"KNOWN-FINDING: property={prop} {k['what']}")
    for r, rp in violations:
        suffix = "" if rp.get("reproduced") else " no-failing-input-found"
        log(f"VIOLATION property={prop} replay={rp['path']}{suffix}")
        log(f"    obligation {r.get('harness') or r['function']} ({r['function']}): "
            + "; ".join(c["description"].replace("\n", " ") for c in r["failed_checks"][:3]))
    if violations:
        return 1
    if undec:
        for r in undec:
            log(f"UNDECIDED property={prop}: {r.get('harness') or r['function']}: {r['reason']}")
        return 2
    n_ob = sum(r.get("checks_total", 0) for r in results if r.get("kind") != "bounded")
    log(f"HELD property={prop} tier={tier}: {n_ob} obligations discharged over "
        f"{len(set(r['function'] for r in results))} functions under contract in {wall:.0f}s")
    return 0


def match_known(r, known):
    for k in known:
        if k.get("obligation") != (r.get("harness") or r["function"]):
            continue
        pat = k.get("failed_check", "")
        if all(pat in c["description"] for c in r["failed_checks"]):
            return k
    return None


def manifest_entry(prop):
    p = VERIF / "MANIFEST.json"
    if not p.exists(): return None
    for c in json.loads(p.read_text()).get("checks", []):
        if c["property_id"] == prop: return c
    return None


def kani_replay(prop, r, unit, sc):
    d = REPLAY / prop
    d.mkdir(parents=True, exist_ok=True)
    path = d / f"{r['harness']}.json"
    rec = {
        "property": prop, "obligation": r["harness"], "function": r["function"],
        "function_location": K.fn_location(unit, r["function"]),
        "clause": r["clause"], "unit": unit["name"], "tool": "kani",
        "failed_checks": r["failed_checks"], "reproduced": False, "path": str(path),
        "repo_head": git_head(REPO), "repo_dirty": git_dirty(REPO),
    }
    try:
        tests, out = K.concrete_playback(unit, r["harness"], sc, unit.get("kani_flags", []))
        rec["verifier_output"] = "\n".join(l for l in out.splitlines() if not l.startswith("Check ") and l.strip())[-6000:]
        if tests:
            t = tests[0]
            rec["playback_test"] = t
            rec["inputs"] = K.parse_playback_values(t)
            ok, exc, cmd = K.native_playback(unit, r["harness"], t, sc)
            rec["reproduced"] = ok
            rec["native_run"] = {"cmd": cmd, "output": exc,
                                 "what": "the harness body (real function + contract assertions) executed natively "
                                         "with the solver's concrete values; a panic = the real code violates the clause"}
        else:
            rec["note"] = "the verifier produced no concrete values for this failure"
    except Exception as e:  # replay is best effort; the verdict does not depend on it
        rec["note"] = f"replay machinery error: {e!r}"
    rec["replay_cmd"] = f"./vf replay {path}"
    path.write_text(json.dumps(rec, indent=1))
    return rec


# ------------------------------------------------------------------------------------------------ evidence

def write_evidence(prop, tier, seed, level, results, units, wall, violations=0, known=(), undecided=None):
    EVIDENCE.mkdir(exist_ok=True)
    proved = [r for r in results if r.get("kind") != "bounded"]
    bounded = [r for r in results if r.get("kind") == "bounded"]
    ob = sum(r.get("checks_total", 0) for r in proved)
    dis = sum(r.get("checks_passed", 0) for r in proved if r["status"] == "verified") + \
          sum(r.get("checks_passed", 0) for r in proved if r["status"] != "verified")
    umap = {u["name"]: u for u in units}
    for r in results:
        if r["tool"] == "kani" and not r.get("location") and r["unit"] in umap:
            try:
                r["location"] = K.fn_location(umap[r["unit"]], r["function"])
            except Exception:
                r["location"] = None
    fns = {}
    for r in results:
        fns.setdefault(r["function"], {"function": r["function"], "location": r.get("location"), "checked_by": []})
        fns[r["function"]]["checked_by"].append(r.get("harness") or ("verus:" + r["unit"]))
    assumptions = []
    trusted = ["rustc / Kani 0.68 compiler front end, CBMC 6.11, CaDiCaL; Verus 0.2026.09.13, Z3 (bundled)",
               "machine integers are exact in both tools (overflow is a checked obligation); usize is 64 bit"]
    for u in units:
        for a in u.get("assumptions", []):
            assumptions.append(f"{u['name']}: {a}")
        if u["tool"] == "kani":
            for a in K.scan_assumptions(u):
                assumptions.append(f"{u['name']} (harness precondition / stub): {a}")
        elif u["tool"] == "verus":
            assumptions += V.unit_assumptions(u)
        for a in u.get("unverified_callers", []):
            assumptions.append(f"{u['name']}: unverified caller: {a}")
    samples = []
    for r in results[:80]:
        samples.append({"obligation": r.get("harness") or r["function"], "function": r["function"],
                        "location": r.get("location"), "clause": r.get("clause", ""), "tool": r["tool"],
                        "status": r["status"]})
    cov = {
        "obligations": ob, "discharged": dis,
        "checker_cmd": f"./vf check {prop} --tier {tier}",
        "trusted_base": trusted,
        "samples": samples,
        "explanation": "obligations = CBMC properties (assertions, overflow, bounds, pointer checks) of every complete "
                       "Kani harness + SMT-discharged functions/lemmas reported verified by Verus (one per function; "
                       "each bundles that function's pre/postconditions, invariants, overflow and termination VCs). "
                       "Bounded stand-ins are listed under `bounded` and are not counted.",
        "functions_under_contract": sorted(fns.values(), key=lambda x: x["function"]),
        "per_obligation": [{k: r.get(k) for k in ("unit", "tool", "backend", "harness", "function", "clause", "kind", "status",
                                                  "checks_total", "checks_passed", "time_s", "solver_s", "rlimit",
                                                  "reason")} for r in results],
        "solver_time_s": round(sum(r.get("solver_s", 0) or 0 for r in results), 3),
        "bounded": [{"harness": r.get("harness"), "function": r["function"], "bound": r.get("bound"),
                     "status": r["status"], "checks": r.get("checks_total")} for r in bounded],
        "extraction": [V.unit_extraction_note(u) for u in units if u["tool"] == "verus"],
        "known_findings_hit": list(known),
        "repo_head": git_head(REPO), "repo_dirty": git_dirty(REPO),
    }
    if undecided:
        cov["undecided"] = undecided
    ev = {"property_id": prop, "tier": tier, "seed": seed, "level": level, "coverage": cov,
          "assumptions": assumptions, "wall_s": round(wall, 1), "violations": violations}
    (EVIDENCE / f"{prop}.json").write_text(json.dumps(ev, indent=1))


# ------------------------------------------------------------------------------------------------ replay

def replay(path):
    rec = json.loads(Path(path).read_text())
    units = load_units()
    u = units[rec["unit"]]
    if rec["tool"] == "kani":
        if "playback_test" not in rec:
            log("no concrete input recorded; verifier output follows\n" + rec.get("verifier_output", "")); return 2
        with Scratch("replay") as sc:
            K.inject(u, sc.repo)
            ok, exc, cmd = K.native_playback(u, rec["obligation"], rec["playback_test"], sc)
        log(exc)
        log("REPRODUCED" if ok else "NOT REPRODUCED")
        return 1 if ok else 0
    if rec["tool"] == "native":
        import native_search
        ok, out = native_search.replay(u, rec)
        log(out)
        log("REPRODUCED" if ok else "NOT REPRODUCED")
        return 1 if ok else 0
    return V.replay(rec, u)


def setup():
    """Warm the Kani dependency cache (bevy etc.) so the first check does not pay 60 s."""
    CACHE.mkdir(exist_ok=True)
    with Scratch("setup") as sc:
        rc, out, err, wall = run(["cargo", "kani", "--only-codegen", "--workspace"], cwd=sc.repo,
                                 env={"CARGO_TARGET_DIR": str(KANI_TARGET)}, timeout=3600)
        log(f"[setup] kani codegen of the workspace: rc={rc} {wall:.0f}s")
        if rc != 0:
            log(err[-3000:])
    rc, out, err, wall = run(["verus", "--version"])
    log(f"[setup] {out.strip().splitlines()[0] if out.strip() else err.strip()}")
    return 0


def list_units():
    for u in load_units().values():
        log(f"{u['name']:30} {u['tool']:6} {','.join(u.get('properties', []))}")
        for h in u.get("harness", []):
            log(f"      {h['name']:40} {h.get('tier', 'quick'):8} {h.get('kind', 'complete'):8} {h['function']}")
    return 0


def main(argv):
    if not argv:
        print(__doc__); return 2
    cmd = argv[0]
    tier = os.environ.get("VERIF_TIER", "quick")
    seed = int(os.environ.get("VERIF_SEED", "0") or 0)
    args = argv[1:]
    if "--tier" in args:
        i = args.index("--tier"); tier = args[i + 1]; del args[i:i + 2]
    if cmd == "check":
        os.environ["VERIF_TIER"] = tier
        return check(args[0], tier, seed)
    if cmd == "replay":
        return replay(args[0])
    if cmd == "setup":
        return setup()
    if cmd == "list":
        return list_units()
    if cmd == "kani1":
        # development aid: run single harness(es) of one unit:  ./vf kani1 <unit> <harness> [...]
        u = dict(load_units()[args[0]])
        u["harness"] = [h for h in u["harness"] if h["name"] in args[1:]]
        for h in u["harness"]:
            h["tier"] = "quick"
        with Scratch("kani1-" + args[0]) as sc:
            res = K.run_kani([u], "quick", None, sc)
        for r in res:
            log(json.dumps({k: r[k] for k in ("harness", "status", "reason", "checks_total", "checks_passed", "time_s", "failed_checks", "covers")}, indent=1))
        return 0
    if cmd == "gen":
        u = load_units()[args[0]]
        text, manifest, drops, fnlocs, side = V.build_file(u)
        path = V.gen_dir() / f"{u['name']}.rs"
        path.write_text(text)
        rc, data, diags, err, wall, c = V.run_verus_file(path, u.get("rlimit", 30))
        log(c)
        for d_ in diags:
            if d_.get("level") in ("error",) or "--warn" in args:
                log(d_.get("rendered", d_.get("message")))
        if data:
            log(json.dumps(data.get("verification-results")))
        else:
            log(err[-3000:])
        log(f"{wall:.1f}s  drops: {drops}")
        return 0
    if cmd == "selftest":
        import selftest
        return selftest.main(args)
    print("unknown command"); return 2
