#!/usr/bin/env python3
"""Regenerates MANIFEST.json from tools/manifest_data.py (claimed checks + not-applicable reasons)."""
import json, sys, os
sys.path.insert(0, os.path.dirname(os.path.abspath(__file__)))
from manifest_data import CHECKS, NOT_APPLICABLE, NOTES, ENGINES
from pathlib import Path
V = Path(__file__).resolve().parent.parent
props = [json.loads(l)["id"] for l in (V / "properties.jsonl").read_text().splitlines() if l.strip()]
checks = []
for pid in props:
    if pid in CHECKS:
        c = CHECKS[pid]
        checks.append({
            "property_id": pid,
            "quick_cmd": f"./vf check {pid} --tier quick",
            "thorough_cmd": f"./vf check {pid} --tier thorough",
            "evidence_file": f"/verif/evidence/{pid}.json",
            "replay_cmd_template": "./vf replay {path}",
            "engine": "vf",
            "level_claimed": {"category": c.get("category", "proof"), "text": c["text"], "design_ref": c["design_ref"]},
            "level_note": c["note"],
            "technique": c["technique"],
        })
na = [{"property_id": p, "reason": NOT_APPLICABLE[p]} for p in props if p not in CHECKS]
assert all(p in NOT_APPLICABLE for p in props if p not in CHECKS), "every unclaimed property needs a reason"
m = {
    "version": 1,
    "setup_cmd": "./vf setup",
    "hooks": {
        "guard": "cfg(kani)",
        "enable": "no hook is committed to /repo: contracts and harness modules are injected by ./vf into a scratch copy of /repo's working tree (Kani sets cfg(kani) itself); Verus units are extracted verbatim from /repo on every run",
        "baseline_off_cmd": "cd /repo && cargo nextest run --workspace --no-fail-fast --test-threads 8 --offline || cargo test --workspace --no-fail-fast --offline",
        "source_commits": [],
        "add_only": True,
    },
    "engines": ENGINES,
    "checks": checks,
    "notes": NOTES,
    "not_applicable": na,
}
(V / "MANIFEST.json").write_text(json.dumps(m, indent=1) + "\n")
try:
    import jsonschema
    jsonschema.validate(m, json.load(open("/root/.vp/MANIFEST.schema.json")))
    print("MANIFEST.json valid;", len(checks), "claimed,", len(na), "not applicable")
except ImportError:
    print("written (jsonschema not available)")
