ENGINES = [
    {"name": "vf", "path": "/verif/vf", "serves_properties": [],
     "kind_free_text": "contract-based deductive verification driver: Verus on verbatim-extracted /repo functions with woven requires/ensures/invariants + dependency shims; Kani/CBMC contract harnesses injected into a scratch copy of the real crate; native replay of counterexamples"},
]
NOTES = ("exit 0 = every obligation generated from /repo's working tree discharged; exit 1 = VIOLATION (a named obligation "
         "that holds on the unchanged tree is refuted); exit 2 = undecided (lost anchor, erase-check mismatch, tool failure, "
         "timeout) - never an alarm. See DESIGN.md.")

CHECKS = {
    "C13": {
        "text": "Proof (Verus on the verbatim run conditions of common_conditions.rs and the status accessors they use): each condition returns exactly the stated function of the client/server status "
                "(None = app built without that side); lemma over the contracts: for every Option<RepliconClient> at most one of 'send to the remote server' / 're-emit locally' is enabled, neither while connecting, "
                "exactly one otherwise; each *_just_* condition is an edge detector (fires iff the stored flag records the opposite state, and stores the current one).",
        "design_ref": "DESIGN.md §4 U13, §5 C13",
        "note": "The proof covers per-frame exclusivity only. The cross-frame clause for the client-to-server direction (events still in Bevy's double buffer when the status changes, 'nothing is put on the network' without a connection, no panic) "
                "is covered by a BOUNDED native stand-in (u13s: one real App, every sequence of status changes, emissions and frames to depth 6/7; labelled bounded, not counted as proved); it found two defects, both repaired. "
                "The same unit covers the server-to-client direction for events (local observation exactly when the local server is a recipient; at most once to a remote client). Not covered: server triggers, events with entity targets. Res/Local are modelled as references.",
        "technique": "contract-based deductive verification: Verus requires/ensures (incl. closure contracts) woven onto verbatim-extracted functions, plus a lemma over those contracts",
    },
    "C17": {
        "text": "Proof on the real example-backend code (Kani): TimedMessage ordering contract for any queued messages - never Equal for distinct queued messages, antisymmetric, transitive, refining (timestamp, insertion order) - full domain over timestamps; "
                "pop hands out a queued message exactly when it is due, exactly once.",
        "design_ref": "DESIGN.md §4 U14, §5 C17",
        "note": "Receive-queue ordering only (config = None path). FIFO for N queued messages rests on the proved ordering contract plus BinaryHeap's documented contract (pop returns a greatest element); an end-to-end run through the real heap is intractable for CBMC even for 2 messages. Not covered: TCP framing and socket behaviour (I/O).",
        "technique": "contract-based deductive verification: Kani/CBMC contract harnesses (full-domain symbolic timestamps) on the real example-backend crate",
    },
    "C03": {
        "text": "Proof, unbounded (Verus on the verbatim ServerEntityMap and its entry API): the two maps stay exact inverses of each other under every entry operation, under insert given its (weakest) precondition, and clear; "
                "plus exactness of the range/count bookkeeping update messages are assembled from (ChangeRanges::add_component, Updates::add_despawn) and of UpdateMessageFlags::last (Kani, all 255 flag sets).",
        "design_ref": "DESIGN.md §4 U8, U11, §5 C03",
        "note": "Only the data-structure clause of the property ('a consistent two-way entity map') and message bookkeeping are decided. Not covered (most of the property): what the server puts into an update message and in which order (Updates::send, Bevy systems), how the client applies it, RemovalBuffer::update.",
        "technique": "contract-based deductive verification: Verus requires/ensures (prophecy-based &mut entry views) on verbatim-extracted functions; Kani for the bit-level flag function",
    },
    "C10": {
        "text": "Proof, unbounded (Verus, nonlinear arithmetic): can_pack against its tail-fit oracle, and three lemmas over the split condition extracted verbatim from Mutations::send "
                "(no message exceeds the size when each group fits; one message when everything fits; a chunk is never separated from an empty message). The same can_pack contract is cross-checked by Kani on the real function.",
        "design_ref": "DESIGN.md §4 U7, §5 C10",
        "note": "Packing arithmetic only (plus bounded native/Kani runs of the chunk bookkeeping, labelled bounded in the evidence). The loop in Mutations::send that applies the decision and assembles bytes (outside Verus' subset; Kani timeout), the graph index chosen in collect_changes and the relationship-graph maintenance (petgraph, observers) "
                "are covered only by a BOUNDED native stand-in (u07s: real server and client app, 145 800 / 1 687 500 rounds over relationship shapes, sizes and maximum message sizes; labelled bounded, not counted as proved). Not covered: the client-side all-or-nothing effect.",
        "technique": "contract-based deductive verification: Verus requires/ensures on verbatim can_pack and on the split condition extracted from the real send(); Kani contract harness for counterexamples",
    },
    "C11": {
        "text": "Proof, unbounded (Verus on the verbatim ClientTicks / MutateIndex code): ack_mutate_message against the oracle `acked_tick` with a whole-view postcondition "
                "(unknown index changes nothing; a known one is consumed once; each named entity's tick moves forward only and never past the message's tick; nothing else changes), "
                "exact map updates of set_mutation_tick/remove_entity, index counter wraps at 2^16; plus the emptiness test that decides whether a mutate message is sent.",
        "design_ref": "DESIGN.md §4 U4, U5, U7, §5 C11",
        "note": "Assumed: hashbrown map semantics, Tick::is_newer_than formula (validated by Kani against bevy). One stated mechanical normalisation (let-else-continue -> if-let) because Verus for-loops do not support continue. "
                "Change detection in collect_changes, send_messages, receive_acks and the client acknowledging every message are Bevy systems: covered only by BOUNDED native stand-ins (u05s: real server and client app, every operation sequence to depth 4/5 "
                "with lost mutate messages, held, replayed and unknown acknowledgements, mutate messages overtaking their update message, a pre-spawned mapping; u07s: partial acknowledgement of a split tick; u05p: a Periodic component next to an every-tick one; labelled bounded, not counted as proved). "
                "One OPEN known finding (F11, known_findings.json): a Periodic component changed off-period is skipped when the entity is acknowledged through another component first - the check prints KNOWN-FINDING and exits 0. Not covered: time-based cleanup firing (cleanup_acks' timer), several clients.",
        "technique": "contract-based deductive verification: Verus requires/ensures/loop invariants woven onto verbatim-extracted functions; Kani contract harnesses for the integer-level parts",
    },
    "C08": {
        "text": "Proof, unbounded (Verus on the verbatim ClientVisibility impl): representation invariant + whole-view postconditions of every operation against the two oracles "
                "cur (latest setting) and held (what the client holds): is_visible/state report the latest setting, an unheld entity is never classified plain Visible, "
                "drain_lost yields exactly held-and-hidden, update commits, remove_despawned keeps a pending loss, other entities untouched; both policies, all call sequences by induction.",
        "design_ref": "DESIGN.md §4 U6, §5 C08",
        "note": "Assumed: hashbrown map/set/Entry semantics (shims). The Bevy systems collect_despawns/collect_removals/collect_changes cannot be put under contract; a BOUNDED native stand-in (u06s, labelled bounded, not counted as proved) "
                "drives a real server and two real clients through every operation sequence to depth 4/5 and checks the bytes on the wire and the client worlds. Not covered: loss/delay/reordering schedules, more than two entities.",
        "technique": "contract-based deductive verification: Verus requires/ensures/invariants woven onto verbatim-extracted functions; native bounded search only to exhibit a failing input",
    },
    "C06": {
        "text": "Proof (decoders only) on the real code and real dependencies: entity decoding is total over all byte strings; BufFlavor::pop makes progress on every non-empty buffer; "
                "acknowledgement index decode/advance; trigger target-list decoding neither panics nor reserves more than the message length (complete for the length-prefix attack, bounded to 3-byte messages in the quick tier otherwise).",
        "design_ref": "DESIGN.md §4 U4, U9, U10, §5 C06",
        "note": "Proof for the decoders only. The Bevy systems that call them (receive_acks, ClientEvent::receive_typed, trigger reception, check_protocol) are covered by a BOUNDED native stand-in (u10s: every byte string up to length 2, "
                "thorough up to length 5 over 16 boundary bytes, from an authorized and an unauthorized client on every registered channel; no panic and the server keeps serving) - labelled bounded, not counted as proved. Not covered: user event types' own Deserialize. "
                "Bounded part (trigger_deserialize over all messages <= 3 bytes) is listed as bounded in the evidence and not counted as proved.",
        "technique": "contract-based deductive verification: Kani/CBMC contract harnesses on the real crate (complete where loop-free / fully unwound; one bounded stand-in, labelled)",
    },
    "C15": {
        "text": "Proof on the real code with the real postcard/bytes/bevy_ecs: (a) totality of deserialize_entity over ALL byte strings (complete: the decoder reads at most 15 bytes), "
                "(b) round trip and exact consumption for every valid (index, generation) with a trailing byte, (c) BufFlavor/ExtendMutFlavor cursor contracts.",
        "design_ref": "DESIGN.md §4 U9, §5 C15",
        "note": "Trusted: Kani/CBMC/CaDiCaL; Backtrace::capture stubbed; Err/Bytes forgotten not dropped; B = Bytes. Loops are postcard's varint loops, unwound with unwinding assertions on (complete).",
        "technique": "contract-based deductive verification: Kani/CBMC contract harnesses (full-domain symbolic inputs, complete unwinding) on the real crate and its real dependencies",
    },
    "C12": {
        "text": "Proof, for all inputs (full 32/64-bit domains, no bound): RepliconTick ordering/arithmetic and every ConfirmHistory operation "
                "(new, contains, contains_any, confirm, set, set_last_tick) against the plain-set-of-confirmed-ticks oracle, as loop-free "
                "Kani harnesses over kani::any() on the real crate; representation invariant assumed on entry and asserted on exit "
                "(induction over operation sequences); ServerMutateTicks::confirm/contains/contains_any and TickMessages unbounded with Verus on the verbatim code "
                "(contains_any through one stated mechanical normalisation of `range(a..=b).any(f)` into a shim call whose body is that expression), "
                "default/clear/mask completely with Kani on the real 64-slot ring.",
        "design_ref": "DESIGN.md §4 U1-U3, §5 C12",
        "note": "Trusted: Kani/CBMC/CaDiCaL, Verus/Z3, vstd's VecDeque specification. Assumed for ServerMutateTicks::contains_any: std's documented behaviour of VecDeque::range(a..=b) + Iterator::any (shims/vecdeque_range_any.vrs) and the range precondition range_ok (start <= end seen from the last tick, shorter than half the counter range); the bounded native run u03n on the real code is kept as a cross-check of exactly that assumption (labelled bounded, not counted). The Bevy systems calling these (apply_mutate_messages) and the server-side message count stamping - the end-to-end 'fully received, notified exactly once' clause - "
                "are covered only by a BOUNDED native stand-in (u03s: real server and client app with tracking on, every sequence of mutation/delivery steps to depth 3/4 with held, reordered and lost mutate messages; labelled bounded, not counted as proved). Not covered: confirm_tick's callers on the entity level (ConfirmHistory component updates).",
        "technique": "contract-based deductive verification: Kani/CBMC function contracts (assume-pre/assert-post, full-domain symbolic inputs; attribute form with proof_for_contract/stub_verified in the thorough tier) and Verus contracts on the verbatim code",
    },
}

PLANNED = "planned (DESIGN.md §5) but its units are not built yet; not claimed until the check exists"
NOT_APPLICABLE = {
    "C01": "Eventual whole-history statement about two Bevy apps and a lossy network; the implementing functions are ECS systems (Query/World/Commands) outside any contract within reach of Verus or Kani. Function-level facts it rests on are decided under C08, C10, C11, C12, C15.",
    "C02": "Relates client component values to a recorded history of server states; mechanisms (apply_mutations skip rule, collect_changes merge, apply_replication order) are World-manipulating systems. set_last_tick's monotonicity is proved under C12 but its caller cannot be checked to establish the precondition.",
    "C04": "Every mechanism is out of reach: system ordering (plugin wiring), receive_typed (unsafe PtrMut casts over generics), SerializedMessage::get_bytes (Kani out of memory, &mut sub-slice borrows for Verus) and ClientEventQueue (BTreeMap: Kani timeout; capturing closure for Verus).",
    "C05": "Recipient selection iterates a Bevy Query with closure filters; exactly-once is a property of Bevy's double-buffered Events<E> across frames; typed plumbing is unsafe pointer casts over generics.",
    "C07": "Holds by absence of components on the client entity and by query filters in send_replication/send_all; there is no function whose contract states it.",
    "C09": "Mechanisms are Bevy systems gated by run conditions and message purges using retain closures / generic Into (not extractable for Verus, Kani timeout). Reachable container resets are proved under C03/C12 but do not amount to the property.",
    "C14": "Distinctness of hashes is not a theorem (FNV-1a collides); determinism rests on any::type_name (compiler intrinsic) and a derived Hash; the authorizing comparison is a Bevy observer.",
    "C16": "Mechanisms are collect_mappings (Query), Updates::send (out of reach) and apply_entity_mapping (World). The only reachable fact (ServerEntityMap::insert then server_entry is Occupied) is proved under C03.",
    "C18": "replicate_into is reflection (TypeRegistry, ReflectComponent, FromReflect) over World archetypes; neither tool can bring it within reach and a shim would be a model of Bevy reflection.",
}
