"""./vf selftest [id ...] — apply each seeded / selftest change to /repo, run the check(s) it should break (or, for
harmless edits, must not disturb), record the verdict, and undo the change straight afterwards.

seeded/<id>/meta.json : {"breaks": ["Cxx", ...], ...}            -> expected VIOLATION (exit 1) on at least one listed property
selftest/<id>/meta.json: {"breaks": [...]} or {"harmless_for": ["Cxx", ...]} -> expected exit 0 for harmless edits
Results are written to <dir>/result.json.
"""
from __future__ import annotations
import json, subprocess, sys, time
from pathlib import Path
from common import *


def sh(cmd, cwd=None):
    p = subprocess.run(cmd, shell=True, cwd=cwd, stdout=subprocess.PIPE, stderr=subprocess.STDOUT, text=True)
    return p.returncode, p.stdout


def main(args):
    dirs = []
    for base in ("seeded", "selftest"):
        b = VERIF / base
        if b.exists():
            dirs += sorted(d for d in b.iterdir() if (d / "meta.json").exists() and (d / "patch.diff").exists())
    if args:
        dirs = [d for d in dirs if d.name in args]
    if git_dirty(REPO):
        log("refusing to run: /repo has uncommitted changes"); return 2
    tier = os.environ.get("VERIF_TIER", "quick")
    bad = 0
    for d in dirs:
        meta = json.loads((d / "meta.json").read_text())
        rc, out = sh(f"git -C {REPO} apply --check {d / 'patch.diff'}")
        if rc != 0:
            log(f"{d.name}: patch does not apply to the current /repo HEAD ({out.strip()[:200]})")
            (d / "result.json").write_text(json.dumps({"applies": False, "repo_head": git_head(REPO)}, indent=1))
            bad += 1
            continue
        sh(f"git -C {REPO} apply {d / 'patch.diff'}")
        res = {"applies": True, "repo_head": git_head(REPO), "tier": tier, "checks": {}}
        try:
            props = meta.get("breaks") or meta.get("harmless_for")
            for p in props:
                t0 = time.time()
                rc, out = sh(f"./vf check {p} --tier {tier}", cwd=VERIF)
                lines = [l for l in out.splitlines() if l.startswith(("VIOLATION", "UNDECIDED", "HELD", "KNOWN-FINDING")) or l.startswith("    obligation")]
                res["checks"][p] = {"exit": rc, "wall_s": round(time.time() - t0, 1), "lines": [l[:600] for l in lines][:12]}
        finally:
            sh(f"git -C {REPO} checkout -- .")
        if meta.get("breaks"):
            caught = [p for p, r in res["checks"].items() if r["exit"] == 1]
            res["expected"] = "VIOLATION"
            res["caught_by"] = caught
            res["ok"] = bool(caught)
        else:
            res["expected"] = "HELD"
            res["ok"] = all(r["exit"] == 0 for r in res["checks"].values())
        (d / "result.json").write_text(json.dumps(res, indent=1))
        log(f"{d.name}: expected {res['expected']}: " + ("OK " if res["ok"] else "MISSED ") +
            " ".join(f"{p}=exit{r['exit']}({r['wall_s']}s)" for p, r in res["checks"].items()))
        if not res["ok"]:
            bad += 1
    return 1 if bad else 0
