"""Verus route: verbatim extraction of /repo items + woven contracts + dependency shims.

Generated file layout (one file per unit, rebuilt from /repo's working tree on every run):

    macro shims (logging macros expand to nothing)
    use vstd::prelude::*;
    verus! {
        <shims/*.vrs>                      assumed contracts on dependencies
        <sidecar `//@ root` sections>      spec fns, lemmas, SpecImpl blocks
        pub mod a { pub mod b { use crate::*; <sidecar `//@ module a::b`> <items of a/b.rs, verbatim> } }
    }
    fn main() {}

Weaving inserts text only at: (1) between a fn signature and its body (`//@ fn`), wrapping the
return type as `(name: T)`; (2) after the n-th loop header of a fn (`//@ loop F n`);
(3) proof blocks at fn entry / before / after / at start / at end of the n-th loop
(`//@ proof F entry|before-loop n|after-loop n|loop-start n|loop-end n`); (4) attribute lines
before an item (`//@ attr`). Every woven byte sits between W_OPEN / W_CLOSE markers; the erase check strips
them and compares the token stream with the /repo item (minus the stated drop list).
"""
from __future__ import annotations
import json, os, re, time, tempfile, itertools
from pathlib import Path
from common import *
import rustitems as R
from locate import Source

W_OPEN, W_CLOSE = "/*[W*/", "/*W]*/"
S_OPEN, S_CLOSE = "/*[S*/", "/*S]*/"   # synthesised function header of a derived item (stripped by the erase check)
I_OPEN, I_CLOSE = "/*[ITEM %s*/", "/*ITEM]*/"

KEEP_DERIVES = {"Clone", "Copy", "PartialEq", "Eq", "Debug", "Default"}
DROP_ATTRS = {"require", "serde", "deref", "reflect", "doc", "cfg_attr", "component", "inline"}

PRELUDE = """#![feature(allocator_api)]
#![allow(unused_imports, dead_code, unused_variables, unused_mut, unused_macros, non_snake_case, unreachable_patterns, unused_parens, unused_braces, unused_assignments)]
macro_rules! trace { ($($t:tt)*) => { () } }
macro_rules! debug { ($($t:tt)*) => { () } }
macro_rules! info { ($($t:tt)*) => { () } }
macro_rules! warn { ($($t:tt)*) => { () } }
macro_rules! error { ($($t:tt)*) => { () } }
// `debug_assert_eq!/ne!` expand to `core::panicking::assert_failed` (unsupported by Verus): same condition, no message.
macro_rules! debug_assert_eq { ($a:expr, $b:expr $(,)?) => { debug_assert!($a == $b) }; ($a:expr, $b:expr, $($t:tt)+) => { debug_assert!($a == $b) } }
macro_rules! debug_assert_ne { ($a:expr, $b:expr $(,)?) => { debug_assert!($a != $b) }; ($a:expr, $b:expr, $($t:tt)+) => { debug_assert!($a != $b) } }
extern crate alloc;
use vstd::prelude::*;
"""


# ------------------------------------------------------------------------------------------------ sidecar

class Sidecar:
    def __init__(self, paths):
        if not isinstance(paths, (list, tuple)):
            paths = [paths]
        self.root = []
        self.module = {}
        self.fn = {}       # name -> (retname, text)
        self.loop = {}     # (fn, n) -> text
        self.proof = {}    # (fn, where, n) -> text
        self.closure = {}  # (fn, n) -> spec text for the n-th closure of the function
        self.attr = {}     # item key -> text
        self.params = {}   # fn -> contract-side parameter names (positional binding to the real signature)
        self.woven = {}    # fn -> clause text as woven (after positional renaming)
        self.skipped = []  # loop-relative hints whose loop no longer exists
        self.unannotated = {}  # fn -> number of closures without a contract (Verus knows nothing about their results)
        for path in paths:
            self._load(Path(path))

    def _load(self, path):
        cur = None
        if not path.exists():
            raise Undecided(f"sidecar {path} missing")
        for line in path.read_text().splitlines():
            if line.startswith("//@ "):
                parts = line[4:].split()
                kind = parts[0]
                if kind == "root":
                    cur = []; self.root.append(cur)
                elif kind == "module":
                    cur = self.module.setdefault(parts[1], [])
                elif kind == "fn":
                    hdr = line[4:].split(None, 1)[1]
                    ret = "r"
                    if " -> " in hdr:
                        hdr, ret = hdr.rsplit(" -> ", 1)
                    params = None
                    mm = re.match(r"(.*?)\((.*)\)\s*$", hdr.strip())
                    if mm:
                        hdr = mm.group(1)
                        params = [x.strip() for x in mm.group(2).split(",") if x.strip()]
                    cur = []
                    self.fn[hdr.strip()] = (ret.strip(), cur)
                    if params is not None:
                        self.params[hdr.strip()] = params
                elif kind == "loop":
                    hdr = line[4:].split(None, 1)[1]
                    f, n = hdr.rsplit(None, 1)
                    cur = self.loop.setdefault((f.strip(), int(n)), [])
                    # Loop invariants (and loop-relative proof blocks) are proof HINTS tied to the loop structure. If the
                    # function no longer has that loop they are skipped and the contract is still checked against the
                    # restructured body - it then fails or is proved on its own merits instead of "lost anchor".
                elif kind == "proof":
                    hdr = line[4:].split(None, 1)[1]
                    m = re.match(r"(.*?)\s+(entry|end|before-loop|after-loop|loop-start|loop-end)(?:\s+(\d+))?$", hdr)
                    if not m:
                        raise Undecided(f"bad sidecar header: {line}")
                    cur = self.proof.setdefault((m.group(1).strip(), m.group(2), int(m.group(3) or 0)), [])
                elif kind == "closure":
                    hdr = line[4:].split(None, 1)[1]
                    f, n = hdr.rsplit(None, 1)
                    cur = self.closure.setdefault((f.strip(), int(n)), [])
                elif kind == "attr":
                    cur = self.attr.setdefault(line[4:].split(None, 1)[1].strip(), [])
                elif kind == "end":
                    cur = None
                else:
                    raise Undecided(f"bad sidecar header: {line}")
            elif cur is not None:
                cur.append(line)

    @staticmethod
    def txt(lines):
        return "\n".join(lines).strip("\n")


# ------------------------------------------------------------------------------------------------ extraction

def attr_name(text):
    m = re.match(r"#\s*!?\s*\[\s*([A-Za-z_][A-Za-z0-9_:]*)", text)
    return m.group(1) if m else ""


def compute_drops(src: Source, lo, hi):
    """Edits (start, end, replacement, note) for the stated drop list inside src[lo:hi]."""
    edits = []
    ts = [t for t in src.toks if lo <= t.pos < hi]
    i = 0
    while i < len(ts):
        t = ts[i]
        if t.kind == R.P and t.text == "#":
            j = i + 1
            while ts[j].kind in R.TRIVIA: j += 1
            if ts[j].text == "[":
                k = R.match_close(ts, j)
                text = src.src[t.pos:ts[k].end]
                name = attr_name(text)
                if name == "derive":
                    inner = src.src[ts[j + 1].pos:ts[k].pos]
                    m = re.match(r"\s*derive\s*\((.*)\)\s*$", inner, re.S)
                    names = [x.strip() for x in m.group(1).split(",") if x.strip()]
                    keep = [x for x in names if x.split("::")[-1] in KEEP_DERIVES]
                    if keep != names:
                        rep = ("#[derive(%s)]" % ", ".join(keep)) if keep else ""
                        edits.append((t.pos, ts[k].end, rep, "derive: dropped " + ", ".join(x for x in names if x not in keep)))
                elif name in DROP_ATTRS:
                    edits.append((t.pos, ts[k].end, "", "attribute dropped: " + " ".join(text.split())))
                i = k + 1
                continue
        i += 1
    return edits


def compute_let_else_continue(src: Source, lo, hi):
    """Mechanical normalisation (Verus: "for-loops do not yet support continue"):
           let PAT = EXPR else { continue; };  REST...   }      (REST = remainder of the enclosing block)
       ==> if let PAT = EXPR {                 REST... } }
    Only when the else block consists of the single statement `continue;`. Returns edits like compute_drops."""
    ts = [t for t in src.toks if lo <= t.pos < hi and t.kind not in R.TRIVIA]
    edits = []
    # enclosing-brace map
    stack, encl = [], {}
    for i, t in enumerate(ts):
        if t.kind == R.P and t.text == "{":
            stack.append(i)
        elif t.kind == R.P and t.text == "}":
            o = stack.pop()
            encl[o] = i
    def enclosing_open(i):
        best = None
        for o, c in encl.items():
            if o < i < c and (best is None or o > best):
                best = o
        return best
    for i, t in enumerate(ts):
        if not (t.kind == R.ID and t.text == "continue"):
            continue
        if not (i >= 2 and ts[i - 1].text == "{" and ts[i - 2].text == "else" and
                i + 3 < len(ts) and ts[i + 1].text == ";" and ts[i + 2].text == "}" and ts[i + 3].text == ";"):
            continue
        else_i = i - 2
        blk_open = enclosing_open(else_i)
        if blk_open is None:
            continue
        # the `let` starting this statement: last `let` at the nesting level of blk_open before `else`
        depth, let_i = 0, None
        for j in range(else_i - 1, blk_open, -1):
            u = ts[j]
            if u.kind == R.P and u.text in (")", "]", "}"): depth += 1
            elif u.kind == R.P and u.text in ("(", "[", "{"): depth -= 1
            elif depth == 0 and u.kind == R.P and u.text == ";":
                break
            elif depth == 0 and u.kind == R.ID and u.text == "let":
                let_i = j
        if let_i is None:
            continue
        blk_close = encl[blk_open]
        line = src.line(ts[let_i].pos)
        note = f"let-else-continue normalised to if-let around the rest of the block (line {line})"
        edits.append((ts[let_i].pos, ts[let_i].pos, "if ", note))
        edits.append((ts[else_i].pos, ts[i + 3].end, "{", note))
        edits.append((ts[blk_close].pos, ts[blk_close].pos, "} ", note))
    return edits


def compute_range_any(src: Source, lo, hi):
    """Mechanical normalisation (Verus has no specification for iterator adapters):
           RECV.range(A..=B).any(CLOSURE)      (RECV = a path of identifiers joined by `.`)
       ==> verif_range_any(&RECV, A, B, CLOSURE)
    `verif_range_any` is the shim `shims/vecdeque_range_any.vrs`, whose external body IS `d.range(start..=end).any(f)` and
    whose assumed contract is std's documented behaviour. Only token-level: receiver, bounds and closure are copied
    verbatim. Returns edits like compute_drops."""
    ts = [t for t in src.toks if lo <= t.pos < hi and t.kind not in R.TRIVIA]
    edits = []
    for i, t in enumerate(ts):
        if not (t.kind == R.ID and t.text == "range" and i >= 2 and ts[i - 1].text == "." and
                i + 1 < len(ts) and ts[i + 1].text == "("):
            continue
        close = R.match_close(ts, i + 1)
        if not (close + 3 < len(ts) and ts[close + 1].text == "." and ts[close + 2].text == "any" and ts[close + 3].text == "("):
            continue
        # the one `..=` at depth 0 between the parentheses
        depth, dots = 0, []
        for j in range(i + 2, close):
            u = ts[j]
            if u.kind == R.P and u.text in ("(", "[", "{"): depth += 1
            elif u.kind == R.P and u.text in (")", "]", "}"): depth -= 1
            elif depth == 0 and u.kind == R.P and u.text == "..=": dots.append(j)
        if len(dots) != 1 or dots[0] == i + 2 or dots[0] == close - 1:
            continue
        # receiver: ID (. ID)* ending right before `. range`
        k = i - 2
        if ts[k].kind != R.ID:
            continue
        while k >= 2 and ts[k - 1].text == "." and ts[k - 2].kind == R.ID:
            k -= 2
        line = src.line(ts[k].pos)
        note = f"`RECV.range(A..=B).any(F)` normalised to the shim call `verif_range_any(&RECV, A, B, F)` (line {line})"
        edits.append((ts[k].pos, ts[k].pos, "verif_range_any(&", note))
        edits.append((ts[i - 1].pos, ts[i + 1].end, ", ", note))
        edits.append((ts[dots[0]].pos, ts[dots[0]].end, ", ", note))
        edits.append((ts[close].pos, ts[close + 3].end, ", ", note))
    return edits


def apply_edits(text, base, edits):
    out, pos = [], base
    for s, e, rep, _ in sorted(edits):
        out.append(text[pos - base:s - base]); out.append(rep); pos = e
    out.append(text[pos - base:])
    return "".join(out)


def W(s):
    return f"{W_OPEN}{s}{W_CLOSE}"


def actual_params(src: Source, fn_item):
    """Names of the non-self parameters of a function, in order."""
    body_open = fn_item.body[0]
    ts = [t for t in src.toks if fn_item.head_start <= t.pos < body_open and t.kind not in R.TRIVIA]
    i = next(k for k, t in enumerate(ts) if t.kind == R.ID and t.text == "fn")
    while ts[i].text != "(":
        if ts[i].text == "<":      # skip generics
            d = 0
            while True:
                if ts[i].text == "<": d += 1
                elif ts[i].text == ">": d -= 1
                i += 1
                if d == 0: break
            continue
        i += 1
    close = R.match_close(ts, i)
    names, cur, depth = [], [], 0
    for t in ts[i + 1:close] + [R.Tok(R.P, ",", 0)]:
        if t.kind == R.P and t.text in ("(", "[", "<", "{"): depth += 1
        elif t.kind == R.P and t.text in (")", "]", ">", "}"): depth -= 1
        if t.kind == R.P and t.text == "," and depth == 0:
            if cur:
                pat = []
                for u in cur:
                    if u.kind == R.P and u.text == ":": break
                    pat.append(u)
                ids = [u.text for u in pat if u.kind == R.ID and u.text not in ("mut", "ref")]
                if ids and ids[-1] != "self":
                    names.append(ids[-1])
            cur = []
        else:
            cur.append(t)
    return names


def closures_in(src: Source, lo, hi):
    """Closures in src[lo:hi] in source order: (offset after the parameter bars, body start, body end, body_is_block)."""
    ts = [t for t in src.toks if lo <= t.pos < hi and t.kind not in R.TRIVIA]
    out = []
    i = 0
    while i < len(ts):
        t = ts[i]
        starts = t.kind == R.P and t.text in ("|", "||") and (i == 0 or ts[i - 1].text in ("(", ",", "=", "move", "{", ";", "return", "=>"))
        if not starts:
            i += 1; continue
        if t.text == "||":
            pe = i
        else:
            pe = i + 1
            depth = 0
            while not (ts[pe].text == "|" and depth == 0):
                if ts[pe].text in ("(", "[", "<"): depth += 1
                elif ts[pe].text in (")", "]", ">"): depth -= 1
                pe += 1
        b = pe + 1
        if ts[b].text == "->":
            raise Undecided("closure with an explicit return type: not handled by the weaver")
        if ts[b].text == "{":
            c = R.match_close(ts, b)
            out.append((ts[pe].end, ts[b].pos, ts[c].end, True))
            i = b + 1
            continue
        k, depth = b, 0
        while k < len(ts):
            u = ts[k]
            if u.kind == R.P and u.text in ("(", "[", "{"): depth += 1
            elif u.kind == R.P and u.text in (")", "]", "}"):
                if depth == 0: break
                depth -= 1
            elif u.kind == R.P and u.text in (",", ";") and depth == 0:
                break
            k += 1
        out.append((ts[pe].end, ts[b].pos, ts[k - 1].end, False))
        i = b
    return out


def rename_idents(text, mapping):
    if not mapping:
        return text
    toks = R.tokenize(text)
    out = []
    prev = None
    for t in toks:
        if t.kind == R.ID and t.text in mapping and not (prev is not None and prev.text in (".", "::")):
            out.append(mapping[t.text])
        else:
            out.append(t.text)
        if t.kind not in R.TRIVIA:
            prev = t
    return "".join(out)


def weave_fn(src: Source, fn_item, key, side: Sidecar, used: set):
    """Return list of insertions (offset, text) for one function."""
    ins = []
    body_open, body_close = fn_item.body
    # positional binding of the contract's parameter names to the real signature (a renamed parameter is harmless)
    mapping = {}
    if key in side.params:
        act = actual_params(src, fn_item)
        if len(act) != len(side.params[key]):
            raise Undecided(f"lost anchor: `{key}` has {len(act)} parameters, its contract expects {len(side.params[key])}")
        mapping = {c: a for c, a in zip(side.params[key], act) if c != a}
    _txt = Sidecar.txt
    def txt_of(lines):
        return rename_idents(_txt(lines), mapping)
    if key in side.fn:
        used.add(("fn", key))
        ret, lines = side.fn[key]
        # return type wrapping
        ts = [t for t in src.toks if fn_item.head_start <= t.pos < body_open and t.kind not in R.TRIVIA]
        depth = 0
        arrow = None
        where_pos = None
        for t in ts:
            if t.kind == R.P and t.text in ("(", "[", "<"): depth += 1
            elif t.kind == R.P and t.text in (")", "]", ">"): depth -= 1
            elif t.kind == R.P and t.text == "->" and depth == 0 and arrow is None: arrow = t
            elif t.kind == R.ID and t.text == "where" and depth == 0: where_pos = t.pos
        sig_end = where_pos if where_pos is not None else body_open
        if arrow is not None and ret != "_":
            # end of return type: last significant token before sig_end
            last = [t for t in ts if t.pos < sig_end][-1]
            ins.append((arrow.end, " " + W(f"({ret}: ")))
            ins.append((last.end, W(")")))
        clause = txt_of(lines)
        side.woven[key] = clause
        if clause.strip():
            ins.append((body_open, W("\n" + clause + "\n")))
    loops = R.loops_in(src.src, body_open + 1, body_close, toks=src.toks)
    for (f, n), lines in side.loop.items():
        if f != key: continue
        used.add(("loop", f, n))
        if n < 1 or n > len(loops):
            side.skipped.append(f"loop invariant {n} of {key} (function has {len(loops)} loops)")
            continue
        ins.append((loops[n - 1][1], W("\n" + txt_of(lines) + "\n")))
    closures = None
    for (f, n), lines in side.closure.items():
        if f != key: continue
        used.add(("closure", f, n))
        if closures is None:
            closures = closures_in(src, body_open + 1, body_close)
        if n < 1 or n > len(closures):
            side.skipped.append(f"closure contract {n} of {key} (function has {len(closures)} closures)")
            continue
        params_end, b0, b1, is_block = closures[n - 1]
        spec = txt_of(lines)
        if is_block:
            ins.append((params_end, W(" " + spec + " ")))
        else:
            ins.append((params_end, W(" " + spec + " {")))
            ins.append((b1, W("}")))
    try:
        n_clos = len(closures_in(src, body_open + 1, body_close)) if closures is None else len(closures)
    except Exception:
        n_clos = 0
    n_spec = sum(1 for (f, n) in side.closure if f == key and 1 <= n <= n_clos)
    if n_clos > n_spec:
        side.unannotated[key] = n_clos - n_spec
    for (f, where, n), lines in side.proof.items():
        if f != key: continue
        used.add(("proof", f, where, n))
        txt = W("\n" + txt_of(lines) + "\n")
        if where == "entry":
            ins.append((body_open + 1, txt))
        elif where == "end":
            # only for functions returning (): the body's tail expression (if any) becomes a statement
            hdr = [t for t in src.toks if fn_item.head_start <= t.pos < body_open and t.kind == R.P and t.text == "->"]
            if hdr:
                raise Undecided(f"`end` proof anchor on `{key}` which returns a value")
            ins.append((body_close, txt))
        else:
            if n < 1 or n > len(loops):
                side.skipped.append(f"proof block {where} {n} of {key} (function has {len(loops)} loops)")
                continue
            kw, lo, lc = loops[n - 1]
            pos = {"before-loop": kw, "after-loop": lc + 1, "loop-start": lo + 1, "loop-end": lc}[where]
            # `before-loop` must go before a possible label or `let x = loop`: keep it simple, statement loops only
            ins.append((pos, txt))
    return ins


def extract_items(unit, side: Sidecar):
    """Returns (modules: {modpath: [item_text]}, manifest: [...], drops: [...], fnlocs)."""
    modules = {}
    manifest = []
    drops_all = []
    fnlocs = {}
    used = set()
    for srcspec in unit["source"]:
        path = REPO / srcspec["file"]
        if not path.exists():
            raise Undecided(f"lost anchor: {srcspec['file']} is gone")
        src = Source(str(path))
        mod = srcspec["module"]
        only = srcspec.get("only", {})
        out = modules.setdefault(mod, [])
        for spec in srcspec["items"]:
            kind, name = spec.split(" ", 1)
            it = src.item(kind, name)
            lo, hi = it.start, it.end
            removed_ranges = []
            ins = []
            key_prefix = name if kind == "impl" else ""
            if kind == "impl":
                subs = src.sub_items(it)
                keep = only.get(spec)
                for s in subs:
                    if s.kind != "fn":
                        continue
                    k = f"{name}::{s.name}"
                    if keep is not None and s.name not in keep:
                        removed_ranges.append((s.start, s.end, "", f"method not under contract, omitted: {k}"))
                        continue
                    fnlocs[k] = f"{srcspec['file']}:{src.line(s.head_start)}"
                    ins += weave_fn(src, s, k, side, used)
                    if ("attr:" + k) in side.attr or k in side.attr:
                        ins.append((s.head_start, W(Sidecar.txt(side.attr[k]) + "\n")))
                        used.add(("attr", k))
                if keep is not None:
                    missing = set(keep) - {s.name for s in subs if s.kind == "fn"}
                    if missing:
                        raise Undecided(f"lost anchor: methods {sorted(missing)} of `{spec}` in {srcspec['file']}")
            elif kind == "fn":
                fnlocs[name] = f"{srcspec['file']}:{src.line(it.head_start)}"
                ins += weave_fn(src, it, name, side, used)
            if spec in side.attr:
                ins.append((it.head_start, W(Sidecar.txt(side.attr[spec]) + "\n")))
                used.add(("attr", spec))
            drops = compute_drops(src, lo, hi)
            if "let-else-continue" in unit.get("rewrites", []):
                drops += compute_let_else_continue(src, lo, hi)
            if "range-any" in unit.get("rewrites", []):
                drops += compute_range_any(src, lo, hi)
            drops = [d for d in drops if not any(r[0] <= d[0] < r[1] for r in removed_ranges)]
            edits = drops + removed_ranges + [(p, p, t, "woven") for p, t in ins]
            # stable order: at equal offsets, keep insertion order
            edits_sorted = sorted(enumerate(edits), key=lambda x: (x[1][0], x[1][1], x[0]))
            text, pos = [], lo
            for _, (s, e, rep, note) in edits_sorted:
                if s < pos:
                    raise Undecided(f"overlapping edits in {spec}")
                text.append(src.src[pos:s]); text.append(rep); pos = e
            text.append(src.src[pos:hi])
            gen = "".join(text)
            # reference token stream = source minus drop list (and minus omitted methods)
            ref = apply_edits(src.src[lo:hi], lo, drops + removed_ranges)
            erase_check(gen, ref, f"{srcspec['file']}: {spec}")
            out.append((I_OPEN % f"{srcspec['file']}: {spec}") + "\n" + gen + "\n" + I_CLOSE)
            manifest.append({"file": srcspec["file"], "item": spec, "line": src.line(it.head_start)})
            for d in drops + removed_ranges:
                entry = f"{srcspec['file']}:{src.line(d[0])}: {d[3]}"
                if not (d[3].startswith("`RECV.range") and any(x.endswith(d[3]) for x in drops_all)):
                    drops_all.append(entry)
    for d in unit.get("derived", []):
        if d["kind"] != "if-condition":
            raise Undecided(f"unknown derived kind {d['kind']}")
        path = REPO / d["file"]
        src = Source(str(path))
        fn_item = src.fn(d["function"])
        bo, bc = fn_item.body
        ts = [t for t in src.toks if bo < t.pos < bc and t.kind not in R.TRIVIA]
        found = []
        for i, t in enumerate(ts):
            if t.kind == R.ID and t.text == "if" and not (i + 1 < len(ts) and ts[i + 1].text == "let"):
                # condition = tokens up to the block's `{` at depth 0
                k, depth = i + 1, 0
                while k < len(ts):
                    u = ts[k]
                    if u.kind == R.P and u.text in ("(", "["): depth += 1
                    elif u.kind == R.P and u.text in (")", "]"): depth -= 1
                    elif u.kind == R.P and u.text == "{" and depth == 0: break
                    k += 1
                cond = ts[i + 1:k]
                if any(c.kind == R.ID and c.text == d["calls"] for c in cond):
                    found.append((ts[i + 1].pos, ts[k - 1].end, cond))
        if len(found) != 1:
            raise Undecided(f"lost anchor: {len(found)} `if` conditions calling `{d['calls']}` in {d['function']}")
        cs, ce, cond = found[0]
        cond_text = src.src[cs:ce]
        # parameters: free identifiers in order of first occurrence (callee names and keywords excluded)
        params = []
        for j, c in enumerate(cond):
            if c.kind == R.ID and c.text not in params and c.text != d["calls"] and \
                    not (j + 1 < len(cond) and cond[j + 1].text in ("(", "::", "!")) and \
                    not (j > 0 and cond[j - 1].text == ".") and c.text not in ("true", "false", "as", "usize"):
                params.append(c.text)
        key = d["name"]
        fnlocs[key] = f"{d['file']}:{src.line(cs)}"
        clause = ""
        if key in side.fn:
            used.add(("fn", key))
            side.woven[key] = Sidecar.txt(side.fn[key][1])
            clause = W("\n" + Sidecar.txt(side.fn[key][1]) + "\n")
        entry = ""
        if (key, "entry", 0) in side.proof:
            used.add(("proof", key, "entry", 0))
            entry = "\n" + Sidecar.txt(side.proof[(key, "entry", 0)]) + "\n"
        def S(x): return f"{S_OPEN}{x}{S_CLOSE}"
        hdr = S(f"fn {key}(" + ", ".join(f"{p}: usize" for p in params) + ") -> (r: bool)") + clause + S("{") + (W(entry) if entry else "")
        gen = hdr + "\n" + cond_text + "\n" + S("}")
        erase_check(gen, cond_text, f"{d['file']}: condition of the `if` calling {d['calls']} in {d['function']}")
        modules.setdefault(d["module"], []).append((I_OPEN % f"{d['file']}: if-condition in {d['function']} calling {d['calls']}") + "\n" + gen + "\n" + I_CLOSE)
        manifest.append({"file": d["file"], "item": f"if-condition of {d['function']} calling {d['calls']} (parameters: {params})",
                         "line": src.line(cs)})
    # every sidecar section must have been used
    for k in side.fn:
        if ("fn", k) not in used:
            raise Undecided(f"lost anchor: contract for `{k}` has no function to attach to")
    for (f, n) in side.loop:
        if ("loop", f, n) not in used:
            raise Undecided(f"lost anchor: loop contract for `{f}` #{n} has no function to attach to")
    for (f, n) in side.closure:
        if ("closure", f, n) not in used:
            raise Undecided(f"lost anchor: closure contract for `{f}` #{n} has no function to attach to")
    for (f, w, n) in side.proof:
        if ("proof", f, w, n) not in used:
            raise Undecided(f"lost anchor: proof block for `{f}` has no function to attach to")
    return modules, manifest, drops_all, fnlocs


def strip_woven(text):
    for op, cl in ((W_OPEN, W_CLOSE), (S_OPEN, S_CLOSE)):
        out = []
        i = 0
        while True:
            j = text.find(op, i)
            if j < 0:
                out.append(text[i:]); break
            out.append(text[i:j])
            k = text.find(cl, j)
            if k < 0:
                raise Undecided("erase check: unbalanced weave markers")
            i = k + len(cl)
        text = "".join(out)
    return text


def erase_check(gen, ref, what):
    a = [t.text for t in R.sig(R.tokenize(strip_woven(gen)))]
    b = [t.text for t in R.sig(R.tokenize(ref))]
    if a != b:
        for i, (x, y) in enumerate(zip(a, b)):
            if x != y:
                raise Undecided(f"erase check failed for {what}: token {i}: generated `{x}` vs source `{y}`")
        raise Undecided(f"erase check failed for {what}: token count {len(a)} vs {len(b)}")


def sidecars_of(unit):
    return unit.get("sidecars") or [unit["sidecar"]]


def build_file(unit):
    side = Sidecar([VERIF / p for p in sidecars_of(unit)])
    modules, manifest, drops, fnlocs = extract_items(unit, side)
    parts = [PRELUDE, "verus! {\n"]
    for s in unit.get("shims", []):
        parts.append(f"// ==== shim {s} (assumed contracts) ====\n" + (VERIF / s).read_text() + "\n")
    for r in side.root:
        parts.append("// ==== sidecar root ====\n" + Sidecar.txt(r) + "\n")
    # module tree
    tree = {}
    for mod in modules:
        node = tree
        for seg in mod.split("::"):
            node = node.setdefault(seg, {})
    for mod in side.module:
        if mod not in modules:
            node = tree
            for seg in mod.split("::"):
                node = node.setdefault(seg, {})

    def emit(node, path):
        s = ""
        for seg, child in node.items():
            p = path + [seg]
            mp = "::".join(p)
            s += f"pub mod {seg} {{\n#[allow(unused_imports)] use crate::*;\n#[allow(unused_imports)] use core::mem;\n"
            if mp in side.module:
                s += f"// ==== sidecar module {mp} ====\n" + Sidecar.txt(side.module[mp]) + "\n"
            for it in modules.get(mp, []):
                s += it + "\n"
            s += emit(child, p)
            s += f"}} // mod {seg}\n"
        return s
    parts.append(emit(tree, []))
    parts.append("\n} // verus!\nfn main() {}\n")
    return "".join(parts), manifest, drops, fnlocs, side


# ------------------------------------------------------------------------------------------------ running verus

def gen_dir():
    d = CACHE / "verus-gen"
    d.mkdir(parents=True, exist_ok=True)
    return d


def run_verus_file(path, rlimit, extra=()):
    cmd = ["verus", str(path), "--output-json", "--time", "--multiple-errors", "20", "--rlimit", str(rlimit),
           "--error-format=json"] + list(extra)
    rc, out, err, wall = run(cmd, cwd=path.parent, timeout=1800)
    data = None
    try:
        data = json.loads(out)
    except Exception:
        m = re.search(r"\{.*\}", out, re.S)
        if m:
            try: data = json.loads(m.group())
            except Exception: data = None
    diags = []
    for l in err.splitlines():
        l = l.strip()
        if l.startswith("{"):
            try: diags.append(json.loads(l))
            except Exception: pass
    return rc, data, diags, err, wall, " ".join(cmd)


def fn_of_line(text, line):
    """Name of the function (as Type::name or name) enclosing a line of the generated file."""
    off0 = None
    # blank out woven regions (same length, newlines kept) so that braces inside clauses do not confuse the item parser
    out, i = [], 0
    while True:
        j = text.find(W_OPEN, i)
        if j < 0:
            out.append(text[i:]); break
        k = text.find(W_CLOSE, j)
        if k < 0:
            out.append(text[i:]); break
        out.append(text[i:j]); out.append("".join(c if c == "\n" else " " for c in text[j:k + len(W_CLOSE)]))
        i = k + len(W_CLOSE)
    text = "".join(out)
    toks = R.tokenize(text)
    # cheap: walk items recursively
    off = sum(len(l) + 1 for l in text.split("\n")[:line - 1])
    best = None

    def walk(lo, hi, prefix):
        nonlocal best
        try:
            items = R.parse_items(text, lo, hi, toks=toks)
        except Exception:
            return
        for it in items:
            if not (it.start <= off < it.end):
                continue
            if it.kind == "fn":
                best = (prefix + "::" + it.name) if prefix else it.name
            if it.body and it.kind in ("mod", "impl", "other", "trait"):
                walk(it.body[0] + 1, it.body[1], it.name if it.kind == "impl" else prefix if it.kind != "mod" else "")
    walk(0, len(text), "")
    return best


def run_verus_unit(unit, tier, prop):
    t0 = time.time()
    text, manifest, drops, fnlocs, side = build_file(unit)
    d = gen_dir()
    path = d / f"{unit['name']}.rs"
    path.write_text(text)
    rlimit = unit.get("rlimit", 30) * (4 if tier == "thorough" else 1)
    rc, data, diags, err, wall, cmd = run_verus_file(path, rlimit)
    unit["_gen"] = {"path": str(path), "manifest": manifest, "drops": drops, "cmd": cmd}
    errors = [d_ for d_ in diags if d_.get("level") == "error"]
    if data is None or "verification-results" not in data:
        msg = "\n".join(d_.get("rendered", d_.get("message", "")) for d_ in errors[:5]) or err[-3000:]
        raise Undecided(f"verus did not verify the generated file for unit {unit['name']} "
                        f"(type error, unsupported construct or tool failure):\n{msg}")
    vr = data["verification-results"]
    if vr.get("encountered-error") and vr.get("verified", 0) + vr.get("errors", 0) == 0:
        msg = "\n".join(d_.get("rendered", d_.get("message", "")) for d_ in errors[:4])
        raise Undecided(f"the generated file for unit {unit['name']} does not compile under verus "
                        f"(a contract names something the code no longer has, or an unsupported construct):\n{msg[:3000]}")
    if vr.get("encountered-vir-error"):
        msg = "\n".join(d_.get("rendered", d_.get("message", "")) for d_ in errors[:5])
        raise Undecided(f"verus rejected the generated file for unit {unit['name']}:\n{msg}")
    # per function breakdown
    per = []
    for m in data.get("times-ms", {}).get("smt", {}).get("smt-run-module-times", []):
        for fb in m.get("function-breakdown", []):
            per.append((fb["function"], fb))
    # map verus names `crate::a::b::Type::f` / impl names to our keys
    declared = dict(fnlocs)
    # lemma / proof fns from the sidecar are obligations too
    results = []
    # classify errors
    fail_by_fn = {}
    undecided_reason = None
    for e in errors:
        msg = e.get("message", "")
        if msg.startswith("aborting due to") or "could not compile" in msg:
            continue
        line = None
        for sp in e.get("spans", []):
            if sp.get("is_primary"):
                line = sp.get("line_start")
        fn = fn_of_line(text, line) if line else None
        if "rlimit" in msg or "Resource limit" in msg or "timed out" in msg.lower():
            undecided_reason = f"resource limit exceeded in {fn}: {msg}"
            continue
        labels = [f"{sp.get('label') or ''} @gen:{sp.get('line_start')}: " +
                  " ".join((t.get('text') or '').strip() for t in sp.get('text', [])[:3]) for sp in e.get("spans", [])]
        fail_by_fn.setdefault(fn or "?", []).append({"description": msg + " | " + " | ".join(labels),
                                                    "category": "verus", "function": fn or "?",
                                                    "location": map_back(text, line, unit) if line else "?"})
    verified_n = vr.get("verified", 0)
    errors_n = vr.get("errors", 0)
    seen = set()
    for vname, fb in per:
        key = verus_key(vname)
        seen.add(key)
        failed = fail_by_fn.get(key, [])
        ok = fb.get("success", True) and not failed
        status = "verified" if ok else "failed"
        reason = ""
        if not ok and side.unannotated.get(key):
            # Verus knows nothing about the result of a closure without a contract: a failed proof of such a function is a
            # tool limit (undecided), not a refutation. (The driver then tries the unit's bounded stand-in, if any.)
            status, reason = "undecided", (f"proof failed, but the function contains {side.unannotated[key]} closure(s) without a "
                                           "contract whose result Verus cannot see: undecided, not a violation")
        results.append({
            "unit": unit["name"], "tool": "verus", "backend": "Z3 via Verus 0.2026.09.13",
            "harness": None, "function": key, "location": declared.get(key),
            "clause": clause_of(side, key), "kind": "complete",
            "status": status,
            "reason": reason, "checks_total": 1, "checks_passed": 1 if ok else 0,
            "failed_checks": failed, "time_s": fb.get("time", 0) / 1000.0, "solver_s": fb.get("time", 0) / 1000.0,
            "rlimit": fb.get("rlimit"), "is_real_code": key in declared,
        })
    # errors attributed to functions that have no SMT entry
    for fn, fl in fail_by_fn.items():
        if fn not in seen:
            results.append({"unit": unit["name"], "tool": "verus", "backend": "Z3 via Verus", "harness": None,
                            "function": fn, "location": declared.get(fn), "clause": clause_of(side, fn),
                            "kind": "complete", "status": "failed", "reason": "", "checks_total": 1,
                            "checks_passed": 0, "failed_checks": fl, "time_s": 0, "solver_s": 0,
                            "is_real_code": fn in declared})
            seen.add(fn)
    if undecided_reason:
        raise Undecided(undecided_reason)
    # vacuity guard 1: every declared exec function with a contract must have been checked
    expected = set(unit.get("expect_functions", [])) or {k for k in side.fn}
    missing = {k for k in expected if k not in seen}
    if missing:
        raise Undecided(f"vacuity guard: functions under contract were not verified by verus: {sorted(missing)}")
    if verified_n + errors_n == 0:
        raise Undecided("vacuity guard: verus reported zero obligations")
    if errors_n and not any(r["status"] in ("failed", "undecided") for r in results):
        raise Undecided(f"verus reported {errors_n} errors that could not be attributed:\n" + err[-2000:])
    # vacuity guard 2: `ensures false` pass
    if not any(r["status"] in ("failed", "undecided") for r in results) and not unit.get("skip_false_pass"):
        vacuity_pass(unit, text, side, fnlocs, rlimit)
    for r in results:
        r["wall_s"] = wall
    log(f"[verus] {unit['name']}: {verified_n} verified, {errors_n} errors, {wall:.1f}s")
    return results


def verus_key(vname: str) -> str:
    """`crate::server::client_visibility::ClientVisibility::update` -> `ClientVisibility::update`;
    `crate::shared::x::impl&%3::cmp` stays informative."""
    parts = vname.split("::")
    if len(parts) >= 2 and (parts[-2][:1].isupper() or parts[-2].startswith("impl&")):
        return parts[-2] + "::" + parts[-1]
    return parts[-1]


def clause_of(side, key):
    if key in side.fn:
        return " ".join(Sidecar.txt(side.fn[key][1]).split())[:600]
    return ""


def map_back(text, line, unit):
    """Map a line of the generated file to `/repo file: item` using the ITEM markers."""
    lines = text.split("\n")
    for i in range(min(line, len(lines)) - 1, -1, -1):
        m = re.search(r"/\*\[ITEM (.*?)\*/", lines[i])
        if m:
            return m.group(1) + f" (generated line {line})"
        if I_CLOSE in lines[i] and i != line - 1:
            break
    return f"sidecar/shim text (generated line {line})"


def vacuity_pass(unit, text, side, fnlocs, rlimit):
    """For every contracted exec function, separately: weave `ensures false` onto it (only it, so callers do not
    inherit the false postcondition) and require Verus to REJECT that function. A function that proves false has a
    contradictory precondition, diverges, or rests on an inconsistent assumption."""
    from concurrent.futures import ThreadPoolExecutor
    targets = [k for k in side.fn if k in fnlocs and k not in unit.get("vacuity_exempt", [])]
    if not targets:
        return
    t0 = time.time()

    def one(idx_k):
        idx, k = idx_k
        clause = side.woven.get(k, Sidecar.txt(side.fn[k][1]))
        marker = W("\n" + clause + "\n")
        if marker not in text:
            return k, "nomarker"
        if re.search(r"(?m)^\s*ensures\b", clause):
            new = re.sub(r"(?m)^(\s*)ensures\b", r"\1ensures false,", clause, count=1)
        elif re.search(r"(?m)^\s*decreases\b", clause):
            new = re.sub(r"(?m)^(\s*)decreases\b", r"\1ensures false,\ndecreases", clause, count=1)
        else:
            new = clause + "\nensures false,"
        gen = text.replace(marker, W("\n" + new + "\n"), 1)
        path = gen_dir() / f"{unit['name']}_vacuity_{idx}.rs"
        path.write_text(gen)
        rc, data, diags, err, wall, cmd = run_verus_file(path, rlimit)
        try:
            if data is None or "verification-results" not in data:
                return k, "toolfail"
            vr = data["verification-results"]
            if vr.get("verified", 0) + vr.get("errors", 0) == 0:
                return k, "toolfail"
            for d_ in diags:
                if d_.get("level") != "error": continue
                for sp in d_.get("spans", []):
                    if sp.get("is_primary") and fn_of_line(gen, sp.get("line_start")) == k:
                        return k, "rejected"
            return k, "proves_false"
        finally:
            try: path.unlink()
            except OSError: pass

    with ThreadPoolExecutor(max_workers=8) as ex:
        res = list(ex.map(one, enumerate(targets)))
    proves_false = [k for k, r in res if r == "proves_false"]
    toolfail = [k for k, r in res if r in ("toolfail", "nomarker")]
    unit["_gen"]["vacuity"] = {"functions": len(targets), "rejected_as_expected": sum(1 for _, r in res if r == "rejected"),
                               "wall_s": round(time.time() - t0, 1)}
    if toolfail:
        raise Undecided(f"vacuity pass failed to run for {unit['name']}: {toolfail}")
    if proves_false:
        raise Undecided(f"vacuity guard: these functions verify `ensures false` "
                        f"(contradictory requires or inconsistent assumption): {proves_false}")


def unit_assumptions(unit):
    out = []
    for s in unit.get("shims", []):
        txt = (VERIF / s).read_text()
        n_ext = len(re.findall(r"external_body", txt))
        n_as = len(re.findall(r"assume_specification|\baxiom\b|\badmit\(|\bassume\(", txt))
        out.append(f"{unit['name']}: shim {s}: {n_ext} external_body items (assumed contracts on dependency methods)"
                   + (f", {n_as} assume/admit/assume_specification" if n_as else ""))
    for sc in sidecars_of(unit):
        side = (VERIF / sc).read_text()
        for i, l in enumerate(side.splitlines(), 1):
            if re.search(r"\bassume\(|\badmit\(|external_body|assume_specification|#\[verifier::external\]", l):
                out.append(f"{unit['name']}: sidecar {sc}:{i}: {l.strip()}")
    return out


def unit_extraction_note(unit):
    g = unit.get("_gen", {})
    return {"unit": unit["name"], "generated_file": g.get("path"), "items": g.get("manifest"),
            "dropped": g.get("drops"), "verus_cmd": g.get("cmd"), "vacuity_pass": g.get("vacuity"),
            "erase_check": "passed for every item (generated text minus woven regions == /repo tokens minus drop list)"
            if g else "not run"}


def verus_replay(prop, r, unit):
    d = REPLAY / prop
    d.mkdir(parents=True, exist_ok=True)
    name = re.sub(r"[^A-Za-z0-9_]+", "_", r["function"])
    path = d / f"{unit['name']}__{name}.json"
    rec = {"property": prop, "obligation": r["function"], "function": r["function"], "function_location": r.get("location"),
           "clause": r.get("clause"), "unit": unit["name"], "tool": "verus", "failed_checks": r["failed_checks"],
           "reproduced": False, "path": str(path), "repo_head": git_head(REPO), "repo_dirty": git_dirty(REPO),
           "verifier_output": "\n".join(c["description"] for c in r["failed_checks"])[:6000],
           "note": "Verus gives no counterexample; see `search` below if this unit has a native counterexample search."}
    # optional native search
    srch = unit.get("search")
    if srch:
        try:
            import native_search
            found = native_search.search(unit, srch, r)
            if found:
                rec.update(found)
        except Exception as e:
            rec["search_error"] = repr(e)
    rec["replay_cmd"] = f"./vf replay {path}"
    path.write_text(json.dumps(rec, indent=1))
    return rec


def bounded_standin(prop, unit, err):
    """The verifier could not process the unit (unsupported construct, does not compile, lost loop anchor ...).
    If the unit has a native search, run it as a BOUNDED STAND-IN on the real code: a failing operation sequence is a
    violation (replayable); finding none leaves the unit undecided. Never counted as proved."""
    srch = unit.get("search")
    if not srch:
        return None
    import native_search
    found = native_search.search(unit, srch, {"function": "(unit)"})
    if not found.get("reproduced"):
        return None
    d = REPLAY / prop
    d.mkdir(parents=True, exist_ok=True)
    path = d / f"{unit['name']}__bounded_standin.json"
    r = {"unit": unit["name"], "tool": "native-search", "backend": "cargo test (bounded enumeration on the real code)",
         "harness": f"{unit['name']}:bounded-standin", "function": f"unit {unit['name']} (bounded stand-in)", "location": None,
         "clause": "executable reference model written from the property, all operation sequences up to depth "
                   f"{srch.get('depth', 5)}", "kind": "bounded", "bound": f"operation sequences up to depth {srch.get('depth', 5)}",
         "status": "failed", "reason": "", "checks_total": 1, "checks_passed": 0,
         "failed_checks": [{"description": f"{found.get('observed')} [ops {','.join(found['inputs']['ops'])}; "
                                           f"{found['inputs']['policy']}] - the deductive verifier could not process this unit: {str(err)[:300]}",
                            "category": "bounded-standin", "function": unit["name"], "location": srch["file"]}],
         "time_s": 0, "solver_s": 0}
    rec = {"property": prop, "obligation": r["harness"], "function": r["function"], "unit": unit["name"], "tool": "verus",
           "clause": r["clause"], "failed_checks": r["failed_checks"], "path": str(path),
           "verifier_output": f"UNDECIDED by Verus: {err}", "repo_head": git_head(REPO), "repo_dirty": git_dirty(REPO),
           "replay_cmd": f"./vf replay {path}"}
    rec.update(found)
    path.write_text(json.dumps(rec, indent=1))
    return r, rec


def replay(rec, unit):
    if "native_test" not in rec:
        log("no failing input recorded; verifier output:\n" + rec.get("verifier_output", ""))
        return 2
    import native_search
    ok, out = native_search.replay(unit, rec)
    log(out)
    log("REPRODUCED" if ok else "NOT REPRODUCED")
    return 1 if ok else 0
