"""Kani route: contracts as harness modules injected into a scratch copy of the real crate."""
from __future__ import annotations
import json, os, re, shutil, time
from pathlib import Path
from common import *
from locate import Source

TIERS = {"quick": 0, "thorough": 1}


def module_path(file: str) -> str:
    p = file.split("src/", 1)[1]
    p = p[:-3]
    if p.endswith("/mod"): p = p[:-4]
    if p in ("lib", "main"): return ""
    return p.replace("/", "::")


def select_harnesses(unit, tier, prop=None):
    hs = []
    for h in unit.get("harness", []):
        if TIERS[h.get("tier", "quick")] > TIERS[tier]:
            continue
        if prop and prop not in h.get("properties", unit.get("properties", [])):
            continue
        hs.append(h)
    return hs


def inject(unit, scratch_repo: Path):
    """Check anchors against the scratch copy (== /repo working tree) and append the harness module."""
    pkg_dir = unit.get("package_dir", "")
    injected = []
    if unit.get("crate_attrs"):
        # crate-level attributes needed by harness code only (all under cfg_attr(kani, ..)), prepended to the crate root
        root = scratch_repo / pkg_dir / "src" / "lib.rs"
        txt = root.read_text()
        marker = "// ---- crate attributes injected by /verif ----\n"
        add = "".join(a + "\n" for a in unit["crate_attrs"] if a not in txt)
        if add:
            root.write_text(marker + add + txt)
    for inj in unit["inject"]:
        f = scratch_repo / pkg_dir / inj["file"]
        if not f.exists():
            raise Undecided(f"lost anchor: file {inj['file']} is gone")
        src = Source(str(f))
        for a in inj.get("anchors", []):
            src.fn(a)
        for a in inj.get("anchor_items", []):
            kind, name = a.split(" ", 1)
            src.item(kind, name)
        if inj.get("contract_attrs"):
            # attribute-form function contracts (#[kani::requires/ensures/modifies]) placed on the real functions
            txt = f.read_text()
            edits = []
            for ca in inj["contract_attrs"]:
                it = src.fn(ca["function"])
                edits.append((it.head_start, ca["text"].strip() + "\n"))
            for pos, t in sorted(edits, reverse=True):
                txt = txt[:pos] + t + txt[pos:]
            f.write_text(txt)
            src = Source(str(f))
        if inj.get("prelude"):
            # text placed right after the file's leading `use` items (e.g. a cfg(kani) macro_rules shadowing a logging macro)
            last_use = None
            for it in src.items:
                if it.kind == "use" or (it.kind == "extern"):
                    last_use = it
                elif it.kind in ("other",) and last_use is None:
                    continue
                else:
                    break
            pos = last_use.end if last_use else 0
            txt = f.read_text()
            f.write_text(txt[:pos] + "\n// ---- injected by /verif (not part of the repository) ----\n" +
                         (VERIF / inj["prelude"]).read_text() + "\n" + txt[pos:])
        side = (VERIF / inj["sidecar"]).read_text()
        with open(f, "a") as fh:
            fh.write("\n\n// ---- injected by /verif (not part of the repository) ----\n")
            fh.write(side)
        injected.append(str(f))
    return injected


def fn_location(unit, spec):
    """/repo file:line of a function under contract."""
    pkg_dir = unit.get("package_dir", "")
    for inj in unit["inject"]:
        f = REPO / pkg_dir / inj["file"]
        try:
            s = Source(str(f))
            it = s.fn(spec)
            return f"{pkg_dir + '/' if pkg_dir else ''}{inj['file']}:{s.line(it.head_start)}"
        except Undecided:
            continue
    return None


def scan_assumptions(unit):
    out = []
    for inj in unit["inject"]:
        txt = (VERIF / inj["sidecar"]).read_text()
        for i, line in enumerate(txt.splitlines(), 1):
            if re.search(r"kani::assume\(|kani::stub\(|kani::stub_verified\(|mem::forget\(", line):
                out.append(f"{inj['sidecar']}:{i}: {line.strip()}")
    return out


def run_kani(units, tier, prop, scratch: Scratch, jobs=8):
    """Returns list of per-harness result dicts. Raises Undecided on build failure."""
    results = []
    by_pkg = {}
    for u in units:
        by_pkg.setdefault(u.get("package", "bevy_replicon"), []).append(u)
    for pkg, us in by_pkg.items():
        wanted = {}
        flags = []
        timeout = 0
        for u in us:
            hs = select_harnesses(u, tier, prop)
            if not hs:
                continue
            inject(u, scratch.repo)
            for h in hs:
                wanted[h["name"]] = (u, h)
                timeout = max(timeout, h.get("timeout_s", 600))
            for fl in u.get("kani_flags", []):
                if fl not in flags: flags.append(fl)
        if not wanted:
            continue
        out_json = scratch.dir / f"kani-{pkg}.json"
        cmd = ["cargo", "kani", "-p", pkg, "--output-format=terse", "-j", str(jobs), "-Z", "unstable-options",
               "--export-json", str(out_json), "--harness-timeout", f"{timeout}s"] + _zflags(flags)
        for name in wanted:
            cmd += ["--harness", name]
        log(f"[kani] {pkg}: {len(wanted)} harness(es), tier {tier}: " + " ".join(sorted(wanted)))
        rc, out, err, wall = run(cmd, cwd=scratch.repo, env={"CARGO_TARGET_DIR": str(KANI_TARGET)},
                                 timeout=timeout * 2 + 1800)
        logf = scratch.dir / f"kani-{pkg}.log"
        logf.write_text(out + "\n==== stderr ====\n" + err)
        if not out_json.exists():
            tail = "\n".join((out + err).splitlines()[-40:])
            raise Undecided(f"kani build/run failed for package {pkg} (rc={rc}); no result file.\n{tail}")
        data = json.loads(out_json.read_text())
        results += parse_results(data, wanted, out)
        seen = {r["harness"] for r in results}
        missing = set(wanted) - seen
        if missing:
            raise Undecided(f"vacuity guard: declared harnesses did not run: {sorted(missing)}")
    return results


def _zflags(flags):
    out = []
    for f in flags:
        out += ["-Z", f]
    return out


def parse_results(data, wanted, stdout=""):
    res = []
    solver = {c["harness_id"]: (c.get("cbmc_stats") or {}) for c in data.get("cbmc", [])}
    details = {p["harness_id"]: (p.get("property_details") or {}) for p in data.get("property_details", [])}
    errors = {e["harness_id"]: e for e in data.get("error_details", [])}
    for r in data["verification_results"]["results"]:
        hid = r["harness_id"]
        name = hid.rsplit("::", 1)[-1]
        if name not in wanted:
            continue
        u, h = wanted[name]
        checks = r.get("checks", [])
        failed = [c for c in checks if c["status"] == "Failure"]
        undet = [c for c in checks if c["status"] in ("Undetermined",)]
        covers = [c for c in checks if c["category"] == "cover"]
        cov_sat = [c for c in covers if c["status"] == "Satisfied"]
        unwind_fail = [c for c in failed if c["category"] == "unwind" or "unwinding assertion" in c["description"]]
        unsupported = [c for c in failed if c["category"] == "unsupported_construct"
                       or "is not currently supported" in c["description"]]
        real_fail = [c for c in failed if c not in unwind_fail and c not in unsupported]
        d = details.get(hid, {})
        st = solver.get(hid, {})
        status = "verified"
        reason = ""
        if r["status"] != "Success":
            if real_fail:
                status = "failed"
            else:
                status = "undecided"
                reason = ("unwinding bound too small" if unwind_fail else
                          "unsupported construct reached" if unsupported else
                          errors.get(hid, {}).get("exit_status", r["status"]))
        exp_cov = h.get("covers", 1)
        if status == "verified" and (len(cov_sat) != len(covers) or len(covers) < exp_cov):
            status = "undecided"
            reason = f"vacuity guard: {len(cov_sat)}/{len(covers)} cover statements satisfied, {exp_cov} expected"
        if status == "verified" and not checks:
            status = "undecided"; reason = "no checks generated"
        res.append({
            "unit": u["name"], "tool": "kani", "backend": "CaDiCaL via CBMC 6.11 (Kani 0.68)",
            "harness": name, "harness_id": hid, "function": h["function"], "clause": h.get("clause", ""),
            "kind": h.get("kind", "complete"), "bound": h.get("bound", ""),
            "status": status, "reason": reason,
            "checks_total": len([c for c in checks if c["category"] != "cover"]),
            "checks_passed": len([c for c in checks if c["category"] != "cover" and c["status"] in ("Success", "Unreachable")]),
            "failed_checks": [{"description": c["description"], "category": c["category"],
                               "function": c["function"],
                               "location": f"{c['location'].get('file')}:{c['location'].get('line')}"} for c in real_fail + unwind_fail + unsupported],
            "covers": [{"description": c["description"], "status": c["status"]} for c in covers],
            "time_s": r.get("duration_ms", 0) / 1000.0,
            "solver_s": st.get("runtime_decision_procedure_s", 0.0),
            "vccs": st.get("vccs_generated", 0),
        })
    return res


# ---------------------------------------------------------------- counterexample + native replay

_test_re = re.compile(r"```\n(.*?)```", re.S)


def concrete_playback(unit, harness_name, scratch: Scratch, flags):
    """Re-run one failing harness with --concrete-playback=print, return the generated unit tests (text)."""
    pkg = unit.get("package", "bevy_replicon")
    cmd = ["cargo", "kani", "-p", pkg, "--harness", harness_name, "-Z", "concrete-playback",
           "--concrete-playback=print"] + _zflags(flags)
    rc, out, err, wall = run(cmd, cwd=scratch.repo, env={"CARGO_TARGET_DIR": str(KANI_TARGET)}, timeout=3600)
    tests = []
    for m in _test_re.finditer(out):
        t = m.group(1)
        if "kani::concrete_playback_run" in t and "Check for `cover`" not in t:
            tests.append(t)
    return tests, out


def parse_playback_values(test_text):
    vals = []
    lines = test_text.splitlines()
    for i, l in enumerate(lines):
        m = re.match(r"\s*// (.*)$", l)
        if m and i + 1 < len(lines) and "vec![" in lines[i + 1]:
            bytes_ = re.findall(r"\d+", lines[i + 1].split("vec![", 1)[1])
            vals.append({"value": m.group(1), "bytes": [int(b) for b in bytes_]})
    return vals


def native_playback(unit, harness, test_text, scratch: Scratch):
    """Insert the generated test next to the harness and execute it natively on the real code
    (`cargo kani playback`). Returns (reproduced, output_excerpt, cmd)."""
    pkg = unit.get("package", "bevy_replicon")
    pkg_dir = unit.get("package_dir", "")
    m = re.search(r"fn (kani_concrete_playback_\w+)\(", test_text)
    tname = m.group(1)
    # find file holding the harness
    target = None
    for inj in unit["inject"]:
        side = (VERIF / inj["sidecar"]).read_text()
        if re.search(r"fn\s+%s\s*\(" % re.escape(harness), side):
            target = scratch.repo / pkg_dir / inj["file"]
    if target is None:
        return False, "harness file not found", ""
    s = target.read_text()
    i = s.rstrip().rfind("}")
    s = s[:i] + "\n" + test_text + "\n}\n"
    target.write_text(s)
    cmd = ["cargo", "kani", "playback", "-p", pkg, "-Z", "concrete-playback", "--", tname]
    rc, out, err, wall = run(cmd, cwd=scratch.repo, env={"CARGO_TARGET_DIR": str(PLAYBACK_TARGET)}, timeout=3600)
    txt = out + err
    reproduced = rc != 0 and ("panicked at" in txt) and ("test result: FAILED" in txt)
    exc = []
    for l in txt.splitlines():
        if "panicked at" in l or l.startswith("assertion") or "attempt to" in l or "test result" in l \
                or "overflow" in l or l.strip().startswith("left:") or l.strip().startswith("right:"):
            exc.append(l)
    return reproduced, "\n".join(exc[:30]), " ".join(cmd)
