"""`tool = "native"` units: a BOUNDED stand-in that runs on every check.

For functions neither verifier can bring within reach (e.g. `ServerMutateTicks::contains_any`: iterator adapter with a
closure for Verus, out of memory under CBMC) the unit's search module (search/<unit>.rs) is executed natively on the real
code: every operation sequence up to the stated depth against an executable reference model written from the property.
Always labelled `bounded`; never counted as proved.
"""
from __future__ import annotations
import re, time
from common import *
import native_search


def run_native_unit(unit, tier):
    srch = unit["search"]
    depth = srch.get("depth_thorough", srch.get("depth", 3)) if tier == "thorough" else srch.get("depth", 3)
    t0 = time.time()
    rc, txt, cmd = native_search._run_test(unit, srch, {"VERIF_DEPTH": str(depth)}, "native-" + unit["name"])
    wall = time.time() - t0
    base = {"unit": unit["name"], "tool": "native", "backend": "cargo test (bounded enumeration on the real code)",
            "harness": srch["test"], "function": unit["function"], "location": None,
            "clause": unit.get("clause", ""), "kind": "bounded",
            "bound": f"all operation sequences up to depth {depth} ({unit.get('bound_note', '')})",
            "time_s": wall, "solver_s": 0.0, "checks_total": 1}
    if rc is None:
        raise Undecided(f"native unit {unit['name']}: {txt}")
    m = re.search(r"VERIF-COUNTEREXAMPLE policy=(\S+) ops=(\S*) :: (.*)", txt)
    if m:
        base.update({"status": "failed", "reason": "", "checks_passed": 0,
                     "failed_checks": [{"description": f"{m.group(3)} [ops {m.group(2)}; {m.group(1)}]", "category": "bounded",
                                        "function": unit["function"], "location": srch["file"]}],
                     "_found": {"reproduced": True, "inputs": {"policy": m.group(1), "ops": m.group(2).split(",")},
                                "observed": m.group(3),
                                "native_test": {"env": {"VERIF_POLICY": m.group(1), "VERIF_OPS": m.group(2)}, "test": srch["test"]},
                                "native_run": {"cmd": cmd, "output": "\n".join(l for l in txt.splitlines() if "VERIF-COUNTEREXAMPLE" in l or "panicked" in l or "test result" in l)[:3000]}}})
        return [base]
    mm = re.search(r"VERIF-EXPLORED sequences=(\d+)", txt)
    if "test result: ok" not in txt or not mm or int(mm.group(1)) == 0:
        # vacuity guard: the enumeration must have run (a filter that matches no test also prints "test result: ok")
        tail = "\n".join(txt.splitlines()[-25:])
        raise Undecided(f"native unit {unit['name']} did not run to completion (no VERIF-EXPLORED line):\n{tail[:2500]}")
    base.update({"status": "verified", "reason": "", "checks_passed": 1, "failed_checks": [],
                 "explored": int(mm.group(1)) if mm else None})
    return [base]
