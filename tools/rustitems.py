"""Rust tokenizer and item locator used by the extractor / weaver.

No regex surgery on code: the source is tokenized (comments, nested block comments,
string / raw string / byte string / char literals, lifetimes, identifiers, numbers,
punctuation) and items are located by walking the token stream with bracket nesting.
"""
from __future__ import annotations
import re
from dataclasses import dataclass

WS, LC, BC, STR, CHAR, LIFE, ID, NUM, P = "ws", "lc", "bc", "str", "char", "life", "id", "num", "p"
TRIVIA = (WS, LC, BC)


@dataclass
class Tok:
    kind: str
    text: str
    pos: int

    @property
    def end(self):
        return self.pos + len(self.text)


class LexError(Exception):
    pass


_id_re = re.compile(r"[A-Za-z_][A-Za-z0-9_]*")
_num_re = re.compile(r"[0-9][0-9A-Za-z_]*(\.[0-9][0-9A-Za-z_]*)?")
_ws_re = re.compile(r"\s+")
_PUNCT2 = ("->", "=>", "::", "..=", "...", "..", "&&", "||", "==", "!=", "<=", ">=", "+=", "-=", "*=", "/=",
           "%=", "^=", "&=", "|=", "<<=", ">>=")


def tokenize(src: str) -> list[Tok]:
    toks: list[Tok] = []
    i, n = 0, len(src)
    while i < n:
        c = src[i]
        m = _ws_re.match(src, i)
        if m:
            toks.append(Tok(WS, m.group(), i)); i = m.end(); continue
        if src.startswith("//", i):
            j = src.find("\n", i)
            j = n if j < 0 else j
            toks.append(Tok(LC, src[i:j], i)); i = j; continue
        if src.startswith("/*", i):
            depth, j = 1, i + 2
            while j < n and depth:
                if src.startswith("/*", j): depth += 1; j += 2
                elif src.startswith("*/", j): depth -= 1; j += 2
                else: j += 1
            if depth: raise LexError("unterminated block comment at %d" % i)
            toks.append(Tok(BC, src[i:j], i)); i = j; continue
        # raw strings r"..", r#".."#, br#..#
        m = re.match(r"(b|c)?r(#*)\"", src[i:i + 40])
        if m and (i == 0 or not (src[i - 1].isalnum() or src[i - 1] == "_")):
            hashes = m.group(2)
            close = '"' + hashes
            j = src.find(close, i + m.end())
            if j < 0: raise LexError("unterminated raw string at %d" % i)
            j += len(close)
            toks.append(Tok(STR, src[i:j], i)); i = j; continue
        if c == '"' or (c in "bc" and src.startswith('"', i + 1)):
            j = i + (2 if c != '"' else 1)
            while j < n and src[j] != '"':
                j += 2 if src[j] == "\\" else 1
            if j >= n: raise LexError("unterminated string at %d" % i)
            j += 1
            toks.append(Tok(STR, src[i:j], i)); i = j; continue
        if c == "'" or (c == "b" and src.startswith("'", i + 1)):
            k = i + (1 if c == "b" else 0)
            # char literal or lifetime
            if src.startswith("\\", k + 1):
                j = src.find("'", k + 3 if src[k + 2] != "'" else k + 3)
                # handle '\'' : escape then quote
                if src[k + 2] == "'":
                    j = k + 3
                if j < 0: raise LexError("bad char at %d" % i)
                toks.append(Tok(CHAR, src[i:j + 1], i)); i = j + 1; continue
            if k + 2 < n and src[k + 2] == "'" and src[k + 1] != "'":
                toks.append(Tok(CHAR, src[i:k + 3], i)); i = k + 3; continue
            m = _id_re.match(src, k + 1)
            if m and c == "'":
                toks.append(Tok(LIFE, src[i:m.end()], i)); i = m.end(); continue
            # multi-byte char literal e.g. 'é'
            j = src.find("'", k + 1)
            if j < 0 or j - k > 6: raise LexError("bad quote at %d" % i)
            toks.append(Tok(CHAR, src[i:j + 1], i)); i = j + 1; continue
        m = _id_re.match(src, i)
        if m:
            t = m.group()
            if t == "r" and src.startswith("#", m.end()) and _id_re.match(src, m.end() + 1):
                m2 = _id_re.match(src, m.end() + 1)
                toks.append(Tok(ID, src[i:m2.end()], i)); i = m2.end(); continue
            toks.append(Tok(ID, t, i)); i = m.end(); continue
        m = _num_re.match(src, i)
        if m:
            # avoid swallowing `0..n` as a float
            t = m.group()
            if ".." in src[i:m.end() + 1] and "." in t:
                t = t.split(".")[0]
            elif "." in t and src[i + len(t.split(".")[0]) + 1: i + len(t.split(".")[0]) + 2].isalpha() and not t.split(".")[1][0].isdigit():
                t = t.split(".")[0]
            toks.append(Tok(NUM, t, i)); i += len(t); continue
        for p in _PUNCT2:
            if src.startswith(p, i):
                toks.append(Tok(P, p, i)); i += len(p); break
        else:
            toks.append(Tok(P, c, i)); i += 1
    return toks


def sig(toks):
    """Significant tokens (no whitespace/comments)."""
    return [t for t in toks if t.kind not in TRIVIA]


OPEN = {"(": ")", "[": "]", "{": "}"}
CLOSE = {")", "]", "}"}


def match_close(toks, i):
    """toks[i] is an opening bracket; return index of its matching closer."""
    depth = 0
    for j in range(i, len(toks)):
        t = toks[j]
        if t.kind == P:
            if t.text in OPEN: depth += 1
            elif t.text in CLOSE:
                depth -= 1
                if depth == 0: return j
    raise LexError("unbalanced bracket at %d" % toks[i].pos)


ITEM_KW = {"use", "mod", "struct", "enum", "union", "fn", "impl", "trait", "type", "const", "static", "macro_rules",
           "extern"}
BLOCK_ITEMS = {"mod", "struct", "enum", "union", "fn", "impl", "trait"}


@dataclass
class Item:
    kind: str          # struct, enum, fn, impl, ...
    name: str          # for impl: normalized header e.g. "Ord for RepliconTick"
    start: int         # char offsets into src, including attributes and doc comments
    end: int
    head_start: int    # char offset where the item proper starts (after attrs / docs)
    attrs: list        # list of (start, end, text) of outer attributes and doc comments
    body: tuple | None  # (open_brace_char_offset, close_brace_char_offset) for block items
    src: str

    @property
    def text(self):
        return self.src[self.start:self.end]


def _skip_trivia(toks, i):
    while i < len(toks) and toks[i].kind in TRIVIA and not _is_doc(toks[i]):
        i += 1
    return i


def _is_doc(t):
    return (t.kind == LC and (t.text.startswith("///") or t.text.startswith("//!")) and not t.text.startswith("////")) or \
           (t.kind == BC and (t.text.startswith("/**") or t.text.startswith("/*!")) and not t.text.startswith("/***"))


def parse_items(src: str, lo: int = 0, hi: int | None = None, toks=None) -> list[Item]:
    """Items whose text lies in src[lo:hi] at nesting depth 0 of that range."""
    if toks is None:
        toks = tokenize(src)
    hi = len(src) if hi is None else hi
    ts = [t for t in toks if lo <= t.pos < hi]
    items = []
    i = 0
    n = len(ts)
    while i < n:
        i = _skip_trivia(ts, i)
        if i >= n: break
        start_i = i
        attrs = []
        # outer attributes and doc comments
        while i < n:
            t = ts[i]
            if _is_doc(t):
                attrs.append((t.pos, t.end, t.text)); i += 1
            elif t.kind in TRIVIA:
                i += 1
            elif t.kind == P and t.text == "#":
                j = i + 1
                while ts[j].kind in TRIVIA: j += 1
                if ts[j].text == "!":
                    j += 1
                    while ts[j].kind in TRIVIA: j += 1
                if ts[j].text != "[":
                    break
                k = match_close(ts, j)
                attrs.append((t.pos, ts[k].end, src[t.pos:ts[k].end])); i = k + 1
            else:
                break
        if i >= n: break
        head_i = i
        # visibility and qualifiers
        j = i
        kw = None
        while j < n:
            t = ts[j]
            if t.kind in TRIVIA: j += 1; continue
            if t.kind == ID and t.text == "pub":
                j += 1
                jj = j
                while jj < n and ts[jj].kind in TRIVIA: jj += 1
                if jj < n and ts[jj].text == "(":
                    j = match_close(ts, jj) + 1
                continue
            if t.kind == ID and t.text in ("unsafe", "async", "default", "open", "closed", "spec", "proof", "exec",
                                           "broadcast", "uninterp", "axiom", "tracked", "ghost"):
                j += 1; continue
            if t.kind == ID and t.text == "const":
                # `const fn` vs `const NAME`
                jj = j + 1
                while ts[jj].kind in TRIVIA: jj += 1
                if ts[jj].kind == ID and ts[jj].text in ("fn", "unsafe", "async", "extern"):
                    j += 1; continue
                kw = "const"; break
            if t.kind == ID and t.text == "extern":
                jj = j + 1
                while ts[jj].kind in TRIVIA: jj += 1
                if ts[jj].kind == STR:
                    jj += 1
                    while ts[jj].kind in TRIVIA: jj += 1
                if ts[jj].kind == ID and ts[jj].text == "fn":
                    j = jj; continue
                if ts[jj].kind == ID and ts[jj].text == "crate":
                    kw = "extern"; break
                kw = "extern"; break
            if t.kind == ID and t.text in ITEM_KW:
                kw = t.text; break
            break
        if kw is None:
            # macro invocation or something else: consume to `;` or a balanced block
            kw = "other"
        kw_i = j
        # find end
        k = kw_i
        body = None
        end_i = None
        while k < n:
            t = ts[k]
            if t.kind == P and t.text in ("(", "["):
                k = match_close(ts, k) + 1; continue
            if t.kind == P and t.text == "{":
                c = match_close(ts, k)
                if kw in BLOCK_ITEMS or kw in ("other", "macro_rules", "extern"):
                    body = (t.pos, ts[c].pos)
                    end_i = c
                    # `macro!{...};` optional semicolon
                    break
                k = c + 1; continue
            if t.kind == P and t.text == ";":
                end_i = k; break
            k += 1
        if end_i is None:
            raise LexError("item without end at %d" % ts[head_i].pos)
        # name
        name = ""
        if kw == "impl":
            hdr_end = body[0] if body else ts[end_i].pos
            name = _impl_name(src[ts[kw_i].end:hdr_end])
        elif kw in ("other",):
            name = ts[kw_i].text if kw_i < n else ""
        else:
            jj = kw_i + 1
            while jj < n and ts[jj].kind in TRIVIA: jj += 1
            if jj < n and ts[jj].kind == ID:
                name = ts[jj].text
            if kw == "use":
                name = src[ts[kw_i].end:ts[end_i].pos].strip()
        st = attrs[0][0] if attrs else ts[head_i].pos
        items.append(Item(kw, name, st, ts[end_i].end, ts[head_i].pos, attrs, body, src))
        i = end_i + 1
    return items


def _strip_generics(s: str) -> str:
    out, depth = [], 0
    i = 0
    while i < len(s):
        c = s[i]
        if s.startswith("->", i):
            if depth == 0: out.append("->")
            i += 2; continue
        if c == "<": depth += 1
        elif c == ">": depth -= 1
        elif depth == 0: out.append(c)
        i += 1
    return "".join(out)


def _impl_name(header: str) -> str:
    """`<'a, T: X> Tr<u32> for Ty<'a, T> where ..` -> `Tr<u32> for Ty`."""
    toks = sig(tokenize(header))
    # drop leading generics
    i = 0
    if toks and toks[0].text == "<":
        depth = 0
        for i, t in enumerate(toks):
            if t.text == "<": depth += 1
            elif t.text == ">":
                depth -= 1
                if depth == 0: break
        i += 1
    toks = toks[i:]
    # cut `where`
    depth = 0
    for k, t in enumerate(toks):
        if t.text == "<": depth += 1
        elif t.text == ">": depth -= 1
        elif depth == 0 and t.kind == ID and t.text == "where":
            toks = toks[:k]; break
    depth = 0
    for_i = None
    for k, t in enumerate(toks):
        if t.text == "<": depth += 1
        elif t.text == ">": depth -= 1
        elif depth == 0 and t.kind == ID and t.text == "for":
            for_i = k
    def join(ts):
        return "".join(t.text for t in ts)
    if for_i is None:
        return _strip_generics(join(toks))
    tr = join(toks[:for_i]).replace(",", ", ")
    ty = _strip_generics(join(toks[for_i + 1:]))
    return tr + " for " + ty


def find_item(items, kind, name):
    r = [it for it in items if it.kind == kind and it.name == name]
    return r


def fn_parts(item: Item):
    """For a fn item return (sig_end_offset == body open brace offset, body close offset)."""
    assert item.kind == "fn" and item.body
    return item.body


def loops_in(src: str, lo: int, hi: int, toks=None):
    """Loop headers (`while`, `for`, `loop`) inside src[lo:hi], in source order, *including nested*
    ones but excluding those inside closures is not attempted (ordinal anchors are per function).
    Returns list of (kw_offset, open_brace_offset, close_brace_offset)."""
    if toks is None:
        toks = tokenize(src)
    ts = [t for t in toks if lo <= t.pos < hi and t.kind not in TRIVIA]
    out = []
    for i, t in enumerate(ts):
        if t.kind == ID and t.text in ("while", "for", "loop"):
            if t.text == "for":
                # skip `for<'a>` HRTB and `impl X for Y` (not inside fn bodies normally)
                if i + 1 < len(ts) and ts[i + 1].text == "<":
                    continue
            k = i + 1
            while k < len(ts):
                u = ts[k]
                if u.kind == P and u.text in ("(", "["):
                    k = match_close(ts, k) + 1; continue
                if u.kind == P and u.text == "{":
                    c = match_close(ts, k)
                    out.append((t.pos, u.pos, ts[c].pos))
                    break
                k += 1
    return out
