#!/usr/bin/env python3
"""Rewrites the seeded-changes table of DESIGN.md (between the SEEDS markers) from seeded/*/meta.json + result.json."""
import json, re
from pathlib import Path
V = Path(__file__).resolve().parent.parent
DESCR = json.loads((V / "seeded" / "descriptions.json").read_text()) if (V / "seeded" / "descriptions.json").exists() else {}
rows = ["| id | breaks | change (needs, to manifest) | first verdict | verdict now (`./vf selftest`) | caught by |", "|---|---|---|---|---|---|"]
FIRST = {"c06_c": "missed (exit 0 quick; exit 2 thorough: timeout)", "c11_a": "missed (exit 2: contract named a renamed parameter)",
         "c11_b": "missed (exit 0: function not under contract)", "c13_b": "missed (exit 2: `mem::replace` unspecified)",
         "c17_b": "missed (exit 0: counter started at 0)", "c08_b": "missed (exit 0: Bevy system, out of reach)",
         "r3a_b": "missed (exit 2: Kani harness timed out on the changed code)",
         "r3b_c": "caught (only by u08n, written after reading the seed's description; Updates::clear was under no check before)"}
for d in sorted((V / "seeded").iterdir()):
    if not (d / "meta.json").exists():
        continue
    m = json.loads((d / "meta.json").read_text())
    r = json.loads((d / "result.json").read_text()) if (d / "result.json").exists() else None
    if r is None:
        verdict, by = "not run", ""
    elif not r.get("applies", True):
        verdict, by = "patch no longer applies", ""
    else:
        parts = []
        obl = []
        for p, c in r["checks"].items():
            parts.append(f"{p}: exit {c['exit']} ({c['wall_s']} s, {r.get('tier', 'quick')})")
            for l in c["lines"]:
                mm = re.match(r"\s*obligation (\S+)", l)
                if mm and mm.group(1) not in obl:
                    obl.append(mm.group(1))
        verdict = ("**caught** — " if r.get("ok") else "**missed** — ") + "; ".join(parts)
        by = ", ".join(f"`{o}`" for o in obl[:4])
    first = FIRST.get(d.name, "")
    if (d / "result_first.json").exists():
        rf = json.loads((d / "result_first.json").read_text())
        first = "caught" if rf.get("ok") else "missed (" + "; ".join(f"exit {c['exit']}" for c in rf["checks"].values()) + ")"
    if not first:
        first = "caught"
    rows.append(f"| {d.name} | {', '.join(m['breaks'])} | {DESCR.get(d.name, '')} | {first} | {verdict} | {by} |")
table = "\n".join(rows)
p = V / "DESIGN.md"
s = p.read_text()
if "SEEDED_TABLE_PLACEHOLDER" in s:
    s = s.replace("SEEDED_TABLE_PLACEHOLDER", "<!-- SEEDS -->\n" + table + "\n<!-- /SEEDS -->")
else:
    s = re.sub(r"<!-- SEEDS -->.*?<!-- /SEEDS -->", "<!-- SEEDS -->\n" + table + "\n<!-- /SEEDS -->", s, flags=re.S)
p.write_text(s)
print(table)
