"""Shared helpers for the vf driver."""
from __future__ import annotations
import json, os, shutil, subprocess, sys, time, tomllib, fcntl, re
from pathlib import Path

VERIF = Path(__file__).resolve().parent.parent
REPO = Path(os.environ.get("VERIF_REPO", "/repo"))
WORK_ROOT = Path(os.environ.get("VERIF_WORK", "/var/tmp")) / "verif-work"
CACHE = VERIF / ".cache"
KANI_TARGET = CACHE / "kani-target"
PLAYBACK_TARGET = CACHE / "kani-playback-target"
REPLAY_TARGET = CACHE / "replay-target"
EVIDENCE = VERIF / "evidence"
REPLAY = VERIF / "replay"

OFFLINE_ENV = {"CARGO_NET_OFFLINE": "true"}


class Undecided(Exception):
    """Exit 2: lost anchor, tool failure, timeout ... never an alarm, never 'held'."""


def log(*a):
    print(*a, flush=True)


def load_units():
    units = {}
    for p in sorted((VERIF / "units").glob("*.toml")):
        with open(p, "rb") as f:
            u = tomllib.load(f)
        u["_path"] = str(p)
        units[u["name"]] = u
    return units


def run(cmd, cwd=None, env=None, timeout=None, stdin=None):
    e = dict(os.environ)
    e.update(OFFLINE_ENV)
    if env:
        e.update(env)
    t0 = time.time()
    try:
        p = subprocess.run(cmd, cwd=cwd, env=e, stdout=subprocess.PIPE, stderr=subprocess.PIPE, text=True,
                           timeout=timeout, input=stdin, errors="replace")
        return p.returncode, p.stdout, p.stderr, time.time() - t0
    except subprocess.TimeoutExpired as ex:
        def dec(b):
            if b is None: return ""
            return b if isinstance(b, str) else b.decode(errors="replace")
        return -9, dec(ex.stdout), dec(ex.stderr) + "\n[vf] TIMEOUT after %ss" % timeout, time.time() - t0


class Scratch:
    """A scratch copy of /repo's current working tree (minus target/ and .git/)."""

    def __init__(self, tag: str):
        self.dir = WORK_ROOT / tag
        self.repo = self.dir / "repo"
        self.lockf = None

    def __enter__(self):
        WORK_ROOT.mkdir(parents=True, exist_ok=True)
        self.lockf = open(str(self.dir) + ".lock", "w")
        fcntl.flock(self.lockf, fcntl.LOCK_EX)
        if self.dir.exists():
            shutil.rmtree(self.dir)
        self.dir.mkdir(parents=True)
        rc, out, err, _ = run(["rsync", "-a", "--exclude", "/target", "--exclude", "/.git", str(REPO) + "/",
                               str(self.repo) + "/"])
        if rc != 0:
            raise Undecided("rsync of /repo failed: " + err)
        return self

    def __exit__(self, *a):
        if not os.environ.get("VERIF_KEEP_WORK"):
            shutil.rmtree(self.dir, ignore_errors=True)
        try:
            fcntl.flock(self.lockf, fcntl.LOCK_UN)
            self.lockf.close()
            os.unlink(str(self.dir) + ".lock")
        except OSError:
            pass


def repo_line(path: Path, offset: int) -> int:
    return path.read_text()[:offset].count("\n") + 1


def load_known_findings():
    p = VERIF / "known_findings.json"
    if not p.exists():
        return []
    return json.loads(p.read_text()).get("findings", [])


def git_head(path):
    rc, out, _, _ = run(["git", "-C", str(path), "rev-parse", "--short", "HEAD"])
    return out.strip() if rc == 0 else "?"


def git_dirty(path):
    rc, out, _, _ = run(["git", "-C", str(path), "status", "--porcelain"])
    return bool(out.strip())
