#!/usr/bin/env python3
"""Confirm a seeded property-breaking change in a scratch worktree and file it under /verif/seeded/<id>/.

usage: confirm_seed.py <worktree> <agent_out_dir> <seed_id> <property> [<property> ...]

Checks, in the worktree (never in /repo): demo passes on HEAD; with the patch: crate compiles, the existing suite passes
(226 tests), the demo fails. Writes patch.diff, demo.rs, notes.txt, meta.json.
"""
import json, os, re, shutil, subprocess, sys
from pathlib import Path

wt, out, sid = Path(sys.argv[1]), Path(sys.argv[2]), sys.argv[3]
props = sys.argv[4:]
dest = Path("/verif/seeded") / sid
env = dict(os.environ, CARGO_TARGET_DIR=str(wt / "target"), CARGO_NET_OFFLINE="true", CARGO_PROFILE_DEV_DEBUG="0",
           CARGO_PROFILE_TEST_DEBUG="0", CARGO_INCREMENTAL="0")


def sh(cmd, **kw):
    p = subprocess.run(cmd, shell=True, cwd=wt, env=env, stdout=subprocess.PIPE, stderr=subprocess.STDOUT, text=True, **kw)
    return p.returncode, p.stdout


def clean():
    sh("git checkout -- . && git clean -fdq -e out -e target")


demo = (out / "demo.rs").read_text()
head = "\n".join(demo.splitlines()[:15])
m = re.search(r"`((?:[A-Za-z0-9_]+/)*tests/[A-Za-z0-9_]+\.rs)`", head)
m2 = re.search(r"`mod tests` of `?([^\s`]+\.rs)", head)
if os.environ.get("DEMO_APPEND_MOD"):
    # the demo is a whole `#[cfg(test)] mod ... { }` appended at the end of the named source file
    place = ("append-mod", os.environ["DEMO_APPEND_MOD"])
    pkg = "bevy_replicon_example_backend" if place[1].startswith("bevy_replicon_example_backend/") else "bevy_replicon"
    test_cmd = f"cargo test --offline -p {pkg} --lib {os.environ.get('DEMO_FILTER', '')}"
elif os.environ.get("DEMO_FILE"):
    place = ("file", os.environ["DEMO_FILE"])
    pkg = "bevy_replicon"
    test_cmd = f"cargo test --offline -p {pkg} --test {Path(place[1]).stem}"
elif m:
    place = ("file", m.group(1))
    pkg = "bevy_replicon_example_backend" if m.group(1).startswith("bevy_replicon_example_backend/") else "bevy_replicon"
    test_cmd = f"cargo test --offline -p {pkg} --test {Path(m.group(1)).stem}"
elif m2:
    place = ("append", m2.group(1))
    pkg = "bevy_replicon_example_backend" if m2.group(1).startswith("bevy_replicon_example_backend/") else "bevy_replicon"
    modpath = m2.group(1).split("src/")[1][:-3].replace("/", "::")
    filt = re.search(r"tests::(demo_\w+)", demo)
    test_cmd = f"cargo test --offline -p {pkg} --lib {filt.group(1) if filt else modpath + '::tests'}"
else:
    print("cannot determine demo placement"); sys.exit(2)


def put_demo():
    if place[0] == "file":
        (wt / place[1]).write_text(demo)
    elif place[0] == "append-mod":
        f = wt / place[1]
        f.write_text(f.read_text().rstrip() + "\n\n" + demo + "\n")
    else:
        f = wt / place[1]
        s = f.read_text().rstrip()
        assert s.endswith("}")
        f.write_text(s[:-1] + "\n" + demo + "\n}\n")


res = {}
clean()
put_demo()
rc, o = sh(test_cmd)
res["demo_on_head"] = {"cmd": test_cmd, "rc": rc, "tail": "\n".join(o.splitlines()[-6:])}
clean()
rc, o = sh(f"git apply {out / 'patch.diff'}")
if rc != 0:
    print("patch does not apply:", o); sys.exit(2)
rc, o = sh("cargo nextest run --workspace --no-fail-fast --test-threads 8 --offline")
summ = [l for l in o.splitlines() if "Summary" in l or "tests run" in l]
res["suite_with_patch"] = {"rc": rc, "summary": summ[-1].strip() if summ else o[-400:]}
put_demo()
rc, o = sh(test_cmd)
res["demo_with_patch"] = {"cmd": test_cmd, "rc": rc, "tail": "\n".join(o.splitlines()[-8:])}
clean()
ok = res["demo_on_head"]["rc"] == 0 and res["suite_with_patch"]["rc"] == 0 and "226 passed" in res["suite_with_patch"]["summary"] \
    and res["demo_with_patch"]["rc"] != 0
res["confirmed"] = ok
print(sid, "CONFIRMED" if ok else "NOT CONFIRMED", json.dumps(res)[:1500])
if ok:
    dest.mkdir(parents=True, exist_ok=True)
    shutil.copy(out / "patch.diff", dest / "patch.diff")
    shutil.copy(out / "demo.rs", dest / "demo.rs")
    nf = next((out / n for n in ("notes.txt", "notes.md") if (out / n).exists()), None)
    if nf:
        shutil.copy(nf, dest / "notes.txt")
    notes = nf.read_text() if nf else ""
    meta = {"id": sid, "breaks": props, "author": "independent sub-agent given only the property text and a scratch worktree",
            "needs_to_manifest": notes[:1200], "demo_placement": place[1], "demo_cmd": test_cmd,
            "confirmed_in_scratch_worktree": res, "base_commit": subprocess.run(["git", "-C", str(wt), "rev-parse", "--short", "HEAD"], stdout=subprocess.PIPE, text=True).stdout.strip()}
    (dest / "meta.json").write_text(json.dumps(meta, indent=1))
